package main

import (
	"bytes"
	"errors"
	"fmt"
	"io"
	"math"
	"net"
	"net/http"
	"net/http/httptest"
	"net/url"
	"os"
	"os/exec"
	"path"
	"path/filepath"
	"sort"
	"strconv"
	"strings"
	"sync"
	"time"

	wt "github.com/hnakamur/whispertool"
	"github.com/hnakamur/whispertool/cmd"
)

func init() {
	// createover F layout m M x X : Create with an open flag without O_EXCL on a path that already holds a
	// synced file with the same header: a handle like any other -- nothing reaches the file before Sync
	register("createover", func(s *sess, tk []string) {
		f := s.file(tk[1])
		if f.db != nil {
			f.db.Close()
			f.db = nil
		}
		l, rest := parseLayout(tk[2:])
		m := wt.AggregationMethod(atoi(rest[1]))
		x := math.Float32frombits(uint32(hex64(rest[3])))
		db, err := wt.Create(f.path, l, m, x, wt.WithoutFlock(), wt.WithOpenFileFlag(os.O_RDWR|os.O_CREATE))
		if err != nil {
			s.obs("createover err")
			return
		}
		f.db = db
		s.obs("createover ok")
	})
}

// intruder: a second session on a copy's destination, started while the copy's source request is pending.
type intruder struct {
	dest    string
	watch   int64
	pts     []wt.Point
	done    chan struct{}
	started bool
	isaw    string // value bits of the watched slot as the session found it
	inow    int64
	result  string
}

func (in *intruder) run() {
	defer close(in.done)
	db, err := wt.Open(in.dest)
	if err != nil {
		in.result = "openerr"
		return
	}
	defer db.Close()
	in.inow = time.Now().Unix()
	ts, err := db.FetchFromArchive(0, wt.Timestamp(in.watch-1), wt.Timestamp(in.watch), wt.Timestamp(in.inow))
	if err != nil || ts == nil || len(ts.Values()) != 1 {
		in.result = "fetcherr"
		return
	}
	in.isaw = showVal(ts.Values()[0])
	if err := db.UpdatePointsForArchive(append([]wt.Point(nil), in.pts...), 0, wt.Timestamp(in.inow)); err != nil {
		in.result = "updateerr"
		return
	}
	if err := db.Sync(); err != nil {
		in.result = "syncerr"
		return
	}
	in.result = "saw=" + in.isaw
}

// wait: the session has ended (it may have had to wait for the copy to release the file)
func (in *intruder) wait() string {
	if !in.started {
		in.result = "notstarted"
		return "isaw=- inow=0"
	}
	select {
	case <-in.done:
	case <-time.After(30 * time.Second):
		in.result = "stuck"
	}
	if in.isaw == "" {
		return "isaw=- inow=0"
	}
	return fmt.Sprintf("isaw=%s inow=%d", in.isaw, in.inow)
}

// intruderProxy: a server that forwards every request to the real server of the run; on the first /view
// request the intruder's session is started and given 300 ms before the request is passed on.
func (s *sess) intruderProxy(in *intruder) (string, func()) {
	real := s.serverURL()
	var once sync.Once
	srv := httptest.NewServer(http.HandlerFunc(func(w http.ResponseWriter, r *http.Request) {
		if strings.HasPrefix(r.URL.Path, "/view") {
			once.Do(func() {
				in.started = true
				go in.run()
				select {
				case <-in.done:
				case <-time.After(300 * time.Millisecond):
				}
			})
		}
		resp, err := http.Get(real + r.URL.RequestURI())
		if err != nil {
			w.WriteHeader(http.StatusBadGateway)
			return
		}
		defer resp.Body.Close()
		for k, v := range resp.Header {
			w.Header()[k] = v
		}
		w.WriteHeader(resp.StatusCode)
		io.Copy(w, resp.Body)
	}))
	return srv.URL, srv.Close
}

func init() {
	// pathclean HEX: path.Clean and filepath.Clean of the string
	register("pathclean", func(s *sess, tk []string) {
		p := string(unhex(tk[1]))
		s.obs("pathclean %s %s", hexOrDash([]byte(path.Clean(p))), hexOrDash([]byte(filepath.Clean(p))))
	})
	// pathjoin HEX...: filepath.Join of the strings
	register("pathjoin", func(s *sess, tk []string) {
		var el []string
		for _, h := range tk[1:] {
			el = append(el, string(unhex(h)))
		}
		s.obs("pathjoin %s", hexOrDash([]byte(filepath.Join(el...))))
	})
}

// joinRel: the relative name given to a command.  Without a prefix it is handed over as written
// (filepath.Join would clean it before the command sees it).
func joinRel(prefix, rel string) string {
	if prefix == "" {
		return rel
	}
	return filepath.Join(prefix, rel)
}

// serverURLFor starts (once per directory) the real "whispertool server" serving dir, in a child process
// (the command registers its handlers on the process-wide mux: one server per process).  The child ends
// with the case.
func (s *sess) serverURLFor(dir string) string { return s.serverURLRel("", dir) }

// serverURLRel: as serverURLFor, the child started in the directory cwd (if not empty) with the base as given --
// possibly a relative one.
func (s *sess) serverURLRel(cwd, dir string) string {
	key := "deepurl:" + cwd + ":" + dir
	if u, ok := s.st[key].(string); ok {
		return u
	}
	l, err := net.Listen("tcp", "127.0.0.1:0")
	must(err)
	addr := l.Addr().String()
	l.Close()
	c := exec.Command(os.Args[0], "--child", "server", addr, dir)
	c.Dir = cwd
	stdin, err := c.StdinPipe()
	must(err)
	must(c.Start())
	deepServers = append(deepServers, func() { stdin.Close(); c.Process.Kill(); c.Wait() })
	u := "http://" + addr
	for i := 0; i < 3000; i++ { // (up to 30 s: the machine may be saturated by other runs)
		resp, err := http.Get(u + "/files?pattern=nothing-here")
		if err == nil {
			resp.Body.Close()
			s.st[key] = u
			return u
		}
		time.Sleep(10 * time.Millisecond)
	}
	must(fmt.Errorf("deep server did not start"))
	return ""
}

var deepServers []func()

func stopDeepServers() {
	for _, f := range deepServers {
		f()
	}
	deepServers = nil
}

func init() {
	// setclock T: the library's clock (the variable whispertool.Now, which callers may replace) shows T
	// until the end of the case; a "now" argument of 0 and the calls without one read it
	register("setclock", func(s *sess, tk []string) {
		t := atoi(tk[1])
		wt.Now = func() time.Time { return time.Unix(t, 0) }
		clockMocked = true
		s.obs("setclock ok")
	})
	// wupd F t v / wmany F n t v ... / wfetch F from until: Whisper.Update, UpdateMany, Fetch
	register("wupd", func(s *sess, tk []string) {
		f := s.file(tk[1])
		if f.db == nil {
			s.obs("wupd nofile")
			return
		}
		if err := f.db.Update(wt.Timestamp(atoi(tk[2])), hexv(tk[3])); err != nil {
			s.obs("wupd err")
		} else {
			s.obs("wupd ok")
		}
	})
	register("wmany", func(s *sess, tk []string) {
		f := s.file(tk[1])
		if f.db == nil {
			s.obs("wmany nofile")
			return
		}
		var pts []wt.Point
		for i := 3; i+1 < len(tk); i += 2 {
			pts = append(pts, wt.Point{Time: wt.Timestamp(atoi(tk[i])), Value: hexv(tk[i+1])})
		}
		if err := f.db.UpdateMany(pts); err != nil {
			s.obs("wmany err")
		} else {
			s.obs("wmany ok")
		}
	})
	register("wfetch", func(s *sess, tk []string) {
		f := s.file(tk[1])
		if f.db == nil {
			s.obs("wfetch nofile")
			return
		}
		ts, err := f.db.Fetch(wt.Timestamp(atoi(tk[2])), wt.Timestamp(atoi(tk[3])))
		switch {
		case err == wt.ErrArchiveIDOutOfRange:
			s.obs("wfetch errarchive")
		case err != nil:
			s.obs("wfetch errinterval")
		case ts == nil:
			s.obs("wfetch none")
		default:
			s.obs("wfetch %s", showSeries(ts))
		}
	})
}

var clockMocked bool

func restoreClock() {
	if clockMocked {
		wt.Now = time.Now
		clockMocked = false
	}
}

func init() {
	// fetchk F id from until now: a fetch whose result is printed sparsely (bounds, step, count and the
	// known values with their instants): for windows of millions of slots
	register("fetchk", func(s *sess, tk []string) {
		f := s.file(tk[1])
		if f.db == nil {
			s.obs("fetchk nofile")
			return
		}
		ts, err := f.db.FetchFromArchive(int(atoi(tk[2])), wt.Timestamp(atoi(tk[3])), wt.Timestamp(atoi(tk[4])), wt.Timestamp(atoi(tk[5])))
		if err != nil || ts == nil {
			s.obs("fetchk err")
			return
		}
		var known []string
		for _, p := range ts.Points() {
			if !p.Value.IsNaN() {
				known = append(known, fmt.Sprintf("%d:%s", uint32(p.Time), showVal(p.Value)))
			}
		}
		s.obs("fetchk %d %d %d %d [%s]", ts.FromTime(), ts.UntilTime(), ts.Step(), len(ts.Values()), strings.Join(known, " "))
	})
}

func init() {
	// tsapi F U S n v.. | F U S n v.. : the library's comparison API on two series (timeseries.go)
	register("tsapi", func(s *sess, tk []string) {
		bar := -1
		for i, t := range tk {
			if t == "|" {
				bar = i
			}
		}
		mk := func(t []string) *wt.TimeSeries {
			var vs []wt.Value
			for _, x := range t[4:] {
				vs = append(vs, hexv(x))
			}
			return wt.NewTimeSeries(wt.Timestamp(atoi(t[0])), wt.Timestamp(atoi(t[1])), wt.Duration(int32(atoi(t[2]))), vs)
		}
		a, b := mk(tk[1:bar]), mk(tk[bar+1:])
		show := func(p, q wt.Points) string {
			f := func(pp wt.Points) string {
				var ss []string
				for _, x := range pp {
					ss = append(ss, fmt.Sprintf("%d:%s", uint32(x.Time), showVal(x.Value)))
				}
				return "[" + strings.Join(ss, " ") + "]"
			}
			return f(p) + "|" + f(q)
		}
		d1, d2 := a.DiffPoints(b)
		x1, x2 := a.DiffPointsExcludeSrcNaN(b)
		p, q := wt.Points(a.Points()), wt.Points(b.Points())
		pd1, pd2 := p.Diff(q)
		s.obs("tsapi eqrs=%v equal=%v diff=%s diffx=%s peq=%v pdiff=%s", a.EqualTimeRangeAndStep(b), a.Equal(b), show(d1, d2), show(x1, x2), p.Equal(q), show(pd1, pd2))
	})
}

func init() {
	// cliabort file=NAME: a client asks the server for the raw dump of NAME and resets its connection without
	// reading the answer (the server's write fails).  Whatever the server does about it, the requests that
	// follow are answered like any other.
	handlers["cliabort"] = func(s *sess, tk []string) {
		a := parseKV(tk[1:])
		s.closeAll()
		s.echo(strings.Join(tk, " "))
		u := s.serverURL()
		conn, err := net.Dial("tcp", strings.TrimPrefix(u, "http://"))
		must(err)
		rel := filepath.Join(filepath.Base(s.dir), a["file"])
		fmt.Fprintf(conn, "GET /%s?file=%s&retention=-1&from=%s&until=%s&now=%s HTTP/1.1\r\nHost: x\r\n\r\n", a.str("path", "view-raw"), url.QueryEscape(rel),
			url.QueryEscape(wt.Timestamp(0).String()), url.QueryEscape(wt.Timestamp(time.Now().Unix()).String()), url.QueryEscape(wt.Timestamp(time.Now().Unix()).String()))
		if tc, ok := conn.(*net.TCPConn); ok {
			tc.SetLinger(0)
		}
		conn.Close()
		time.Sleep(300 * time.Millisecond)
		s.obs("cliabort done")
	}
}

func init() {
	// cligen2 dest=NAME layout=..: two generate commands for the same (missing) path, the second started while
	// the first is at work: generate never replaces a file that is there, so exactly one of them succeeds
	// and the file is a complete database.
	handlers["cligen2"] = func(s *sess, tk []string) {
		a := parseKV(tk[1:])
		s.closeAll()
		dest := filepath.Join(s.dir, a["dest"])
		must(os.MkdirAll(filepath.Dir(dest), 0755))
		run := func(out chan string) {
			c := &cmd.GenerateCommand{Dest: dest, Perm: 0644, AggregationMethod: wt.Sum, XFilesFactor: 0.5,
				ArchiveInfoList: layoutFromCSV(a["layout"]), RandMax: 10, Fill: true, TextOut: ""}
			defer func() {
				if recover() != nil {
					out <- "panic"
				}
			}()
			out <- statusOf(c.Execute(), false)
		}
		r1, r2 := make(chan string, 1), make(chan string, 1)
		go run(r1)
		time.Sleep(time.Duration(a.num("stagger", 50)) * time.Millisecond)
		go run(r2)
		st := []string{<-r1, <-r2}
		sort.Strings(st)
		s.echo(strings.Join(tk, " "))
		s.obs("cligen2 %s", strings.Join(st, " "))
	}
}
func init() {
	// hremote kind=view|viewraw len=N body=HEX: the remote-read client against a server whose answer announces
	// N body bytes (Content-Length) and sends the bytes HEX, then closes the connection.  The client runs in a
	// child process; its allocation is held against the bytes that really arrived.
	register("hremote", func(s *sess, tk []string) {
		a := parseKV(tk[1:])
		body := unhex(a.str("body", "-"))
		l, err := net.Listen("tcp", "127.0.0.1:0")
		must(err)
		defer l.Close()
		go func() {
			for {
				c, err := l.Accept()
				if err != nil {
					return
				}
				go func(c net.Conn) {
					defer c.Close()
					buf := make([]byte, 4096)
					c.SetReadDeadline(time.Now().Add(2 * time.Second))
					c.Read(buf)
					fmt.Fprintf(c, "HTTP/1.1 200 OK\r\nContent-Type: application/octet-stream\r\nContent-Length: %s\r\nConnection: close\r\n\r\n", a["len"])
					c.Write(body)
				}(c)
			}
		}()
		s.obs("hremote %s", runChild("rview", "http://"+l.Addr().String(), a.str("kind", "view"), fmt.Sprint(len(body)), a.str("archive", "-1")))
	})
}

func init() {
	// wfetchtick F id from until T step: a fetch without an explicit clock while the library's clock moves --
	// every reading shows step seconds more than the one before.  However often the call looks at the clock, its
	// answer is the answer for ONE of the instants it saw (compared with the explicit-clock fetch at each).
	register("wfetchtick", func(s *sess, tk []string) {
		f := s.file(tk[1])
		if f.db == nil {
			s.obs("wfetchtick nofile")
			return
		}
		id, from, until := int(atoi(tk[2])), wt.Timestamp(atoi(tk[3])), wt.Timestamp(atoi(tk[4]))
		t, step := atoi(tk[5]), atoi(tk[6])
		old := wt.Now
		reads := int64(0)
		wt.Now = func() time.Time {
			v := t + step*reads
			reads++
			return time.Unix(v, 0)
		}
		show := func(ts *wt.TimeSeries, err error) string {
			switch {
			case err != nil:
				return "err:" + err.Error()
			case ts == nil:
				return "none"
			}
			return showSeries(ts)
		}
		got := show(f.db.FetchFromArchive(id, from, until, 0))
		wt.Now = old
		n := reads
		if n < 1 {
			n = 1
		}
		verdict := "inconsistent"
		for i := int64(0); i < n; i++ {
			if show(f.db.FetchFromArchive(id, from, until, wt.Timestamp(t+step*i))) == got {
				verdict = "consistent"
			}
		}
		s.obs("wfetchtick %s", verdict)
	})
}

func init() {
	// syncclosed F: Close, then Sync on the same handle.  A closed handle can write nothing any more: Sync says so.
	register("syncclosed", func(s *sess, tk []string) {
		f := s.file(tk[1])
		if f.db == nil {
			s.obs("syncclosed nofile")
			return
		}
		f.db.Close()
		err := f.db.Sync()
		f.db = nil
		if err != nil {
			s.obs("syncclosed err")
		} else {
			s.obs("syncclosed ok")
		}
	})
}

func init() {
	// dirlink TARGET LINK: a directory TARGET and a symbolic link LINK to it (both in the case directory)
	register("dirlink", func(s *sess, tk []string) {
		must(os.MkdirAll(filepath.Join(s.dir, tk[1]), 0755))
		link := filepath.Join(s.dir, tk[2])
		must(os.MkdirAll(filepath.Dir(link), 0755))
		rel, err := filepath.Rel(filepath.Dir(link), filepath.Join(s.dir, tk[1]))
		must(err)
		must(os.Symlink(rel, link))
		s.obs("dirlink ok")
	})
}

func init() {
	// rawduring F now: a raw view (the view-raw command on the directory) started in the middle of a writer's
	// session -- after its first update was synced, before its second one.  Like every reader it sees the file
	// as of a session boundary: both updates (it waited for the writer to close) or none, never one of them.
	register("rawduring", func(s *sess, tk []string) {
		f := s.file(tk[1])
		s.closeAll()
		now := wt.Timestamp(atoi(tk[2]))
		a, err := wt.Open(f.path)
		if err != nil {
			s.obs("rawduring openerr")
			return
		}
		must(a.UpdatePointForArchive(0, now.Add(-1), wt.Value(111111), now))
		must(a.Sync())
		done := make(chan string, 1)
		go func() {
			out := filepath.Join(s.dir, "rawduring.txt")
			os.Remove(out)
			c := &cmd.ViewRawCommand{SrcBase: filepath.Dir(f.path), SrcRelPath: filepath.Base(f.path), ArchiveID: 0, SortsByTime: true, TextOut: out}
			if err := c.Execute(); err != nil {
				done <- "err"
				return
			}
			b, _ := os.ReadFile(out)
			hasA, hasB := strings.Contains(string(b), "val:111111"), strings.Contains(string(b), "val:222222")
			switch {
			case hasA && hasB:
				done <- "both"
			case hasA:
				done <- "first-only"
			case hasB:
				done <- "second-only"
			default:
				done <- "none"
			}
		}()
		time.Sleep(250 * time.Millisecond)
		must(a.UpdatePointForArchive(0, now.Add(-3), wt.Value(222222), now))
		must(a.Sync())
		a.Close()
		res := "hang"
		select {
		case res = <-done:
		case <-time.After(20 * time.Second):
		}
		if res == "both" || res == "none" {
			res = "boundary"
		}
		s.obs("rawduring %s", res)
	})
}

func init() {
	// cligensize dest=NAME layout=.. m= x=: generate without fill; the length of the file it leaves (the file is
	// sparse and removed afterwards): for archives of any size the file is as long as its header says
	handlers["cligensize"] = func(s *sess, tk []string) {
		a := parseKV(tk[1:])
		s.closeAll()
		dest := filepath.Join(s.dir, a["dest"])
		must(os.MkdirAll(filepath.Dir(dest), 0755))
		c := &cmd.GenerateCommand{Dest: dest, Perm: 0644, AggregationMethod: wt.AggregationMethod(a.num("m", 2)),
			XFilesFactor: math.Float32frombits(uint32(hex64(a.str("x", "3f000000")))), ArchiveInfoList: layoutFromCSV(a["layout"]), RandMax: 10, Fill: false, TextOut: ""}
		err, panicked := runCmd(c.Execute)
		s.echo(strings.Join(tk, " "))
		st := statusOf(err, panicked)
		if st != "ok" {
			s.obs("cligensize %s", st)
		} else if fi, err := os.Stat(dest); err != nil {
			s.obs("cligensize nofile")
		} else {
			s.obs("cligensize ok size=%d", fi.Size())
		}
		os.Remove(dest)
	}
}

// ---- proc=1: the command run as a process (the program built from cmd/whispertool/main.go, with real flags)

// procArgs spells a command value as the command line that produces it.
func procArgs(c interface{}) []string {
	ts := func(t wt.Timestamp) string { return t.String() }
	window := func(from, until wt.Timestamp) []string {
		if from == 0 && until == 0 {
			return nil
		}
		return []string{"-from=" + ts(from), "-until", ts(until)}
	}
	xff := func(x float32) string { return strconv.FormatFloat(float64(x), 'g', -1, 32) }
	switch v := c.(type) {
	case *cmd.CopyCommand:
		a := []string{"copy", "-src-base", v.SrcBase, "-src=" + v.SrcRelPath, "-dest-base", v.DestBase, "-agg-method", v.AggregationMethod.String(),
			"-x-files-factor=" + xff(v.XFilesFactor), "-retentions", v.ArchiveInfoList.String(), "-archive", fmt.Sprint(v.ArchiveID), "--text-out=" + v.TextOut,
			fmt.Sprintf("-copy-nan=%v", v.CopyNaN)}
		if v.DestRelPath != "" {
			a = append(a, "-dest", v.DestRelPath)
		}
		return append(a, window(v.From, v.Until)...)
	case *cmd.DiffCommand:
		a := []string{"diff", "-src-base", v.SrcBase, "-src=" + v.SrcRelPath, "-dest-base", v.DestBase, "-archive", fmt.Sprint(v.ArchiveID), "--text-out=" + v.TextOut}
		if v.DestRelPath != "" {
			a = append(a, "-dest", v.DestRelPath)
		}
		return append(a, window(v.From, v.Until)...)
	case *cmd.SumCommand:
		return append([]string{"sum", "-src-base=" + v.SrcBase, "-item", v.ItemPattern, "-src", v.SrcPattern, "-archive=" + fmt.Sprint(v.ArchiveID), "-text-out", v.TextOut,
			fmt.Sprintf("-header=%v", v.ShowHeader)}, window(v.From, v.Until)...)
	case *cmd.SumCopyCommand:
		return append([]string{"sum-copy", "-src-base", v.SrcBase, "-item=" + v.ItemPattern, "-src", v.SrcPattern, "-dest-base", v.DestBase, "-dest", v.DestRelPath,
			"-agg-method=" + v.AggregationMethod.String(), "-x-files-factor", xff(v.XFilesFactor), "-retentions=" + v.ArchiveInfoList.String(),
			"-archive", fmt.Sprint(v.ArchiveID), "-text-out=" + v.TextOut}, window(v.From, v.Until)...)
	case *cmd.SumDiffCommand:
		return append([]string{"sum-diff", "-src-base", v.SrcBase, "-item", v.ItemPattern, "-src=" + v.SrcPattern, "-dest-base=" + v.DestBase, "-dest", v.DestRelPath,
			"-archive", fmt.Sprint(v.ArchiveID), "-text-out", v.TextOut}, window(v.From, v.Until)...)
	case *cmd.ViewCommand:
		return append([]string{"view", "-src-base", v.SrcBase, "-src", v.SrcRelPath, "-archive", fmt.Sprint(v.ArchiveID), "-text-out=" + v.TextOut,
			fmt.Sprintf("-header=%v", v.ShowHeader)}, window(v.From, v.Until)...)
	case *cmd.ViewRawCommand:
		return append([]string{"view-raw", "--src-base", v.SrcBase, "--src=" + v.SrcRelPath, "-archive", fmt.Sprint(v.ArchiveID), "-text-out", v.TextOut,
			fmt.Sprintf("-header=%v", v.ShowHeader), fmt.Sprintf("-sort=%v", v.SortsByTime)}, window(v.From, v.Until)...)
	case *cmd.GenerateCommand:
		return []string{"generate", "-dest", v.Dest, "-perm", fmt.Sprintf("%o", uint32(v.Perm)), "-agg-method", v.AggregationMethod.String(), "-x-files-factor", xff(v.XFilesFactor),
			"-retentions", v.ArchiveInfoList.String(), "-max", fmt.Sprint(v.RandMax), fmt.Sprintf("-fill=%v", v.Fill), "-text-out=" + v.TextOut}
	}
	must(fmt.Errorf("procArgs: unknown command %T", c))
	return nil
}

var errProcFailed = errors.New("the program exited with status 2")

// execute runs a command: in this process (Execute), or, with proc=1, as the program itself (exit status 0 =
// success, 1 = difference found, 2 = any error).
func (s *sess) execute(a kv, c cmd.Command, then func()) (err error, panicked bool) {
	if a["ro"] != "" {
		// ro=REL,..: the command runs as a user who may read but not write these files
		b := kv{}
		for k, v := range a {
			if k != "ro" {
				b[k] = v
			}
		}
		if !s.asNobody(s.roFiles(a), func() { err, panicked = s.execute(b, c, then) }) {
			// this environment cannot show the scenario (not root, or the files are out of that user's reach): the
			// command runs as it is, and the model is told so (roskip=1)
			s.st["roskip"] = true
			return s.execute(b, c, then)
		}
		return err, panicked
	}
	if a.num("proc", 0) != 1 {
		return runCmdThen(c.Execute, then)
	}
	bin := filepath.Join(filepath.Dir(os.Args[0]), "whispertool")
	pc := exec.Command(bin, procArgs(c)...)
	var stderr bytes.Buffer
	pc.Stdout, pc.Stderr = io.Discard, &stderr
	err = pc.Run()
	if then != nil {
		then()
	}
	if err == nil {
		return nil, false
	}
	var ee *exec.ExitError
	if !errors.As(err, &ee) {
		must(err)
	}
	if strings.Contains(stderr.String(), "panic:") || strings.Contains(stderr.String(), "fatal error:") {
		return nil, true
	}
	switch ee.ExitCode() {
	case 1:
		return cmd.ErrDiffFound, false
	case 2:
		return errProcFailed, false
	}
	return fmt.Errorf("exit status %d", ee.ExitCode()), false
}

func init() {
	// clirawsum q=<query template> : GET /sum?<query> on the real server, the query taken as it is (see
	// clirawview).  What the item and pattern of the query match under the served root is reported as the glob
	// oracle of the model (files relative to the case directory).
	handlers["clirawsum"] = func(s *sess, tk []string) {
		s.closeAll()
		q := strings.TrimPrefix(strings.Join(tk[1:], " "), "q=")
		if q == "-" {
			q = ""
		}
		prefix := filepath.Base(s.dir)
		q = strings.ReplaceAll(q, "CASEDIR", prefix)
		q = tsToken.ReplaceAllStringFunc(q, func(m string) string {
			n, _ := strconv.ParseInt(tsToken.FindStringSubmatch(m)[1], 10, 64)
			return wt.Timestamp(uint32(n)).String()
		})
		item, pattern, files := "", "", "-"
		if v, err := url.ParseQuery(q); err == nil {
			item, pattern = v.Get("item"), v.Get("pattern")
			if item != "" && pattern != "" {
				m, gerr := filepath.Glob(filepath.Join(s.root, strings.ReplaceAll(item, ".", "/"), pattern))
				if gerr != nil {
					files = "BADPATTERN"
				} else {
					var rel []string
					for _, p := range m {
						if r, err := filepath.Rel(s.dir, p); err == nil && !strings.HasPrefix(r, "..") {
							rel = append(rel, r)
						} else {
							rel = append(rel, "OUTSIDE")
						}
					}
					files = csvOrDash(rel)
				}
			}
		}
		s.echo(fmt.Sprintf("clirawsum q=%s item=%s pattern=%s files=%s", hexStr(q), hexStr(item), hexStr(pattern), files))
		u, err := url.Parse(s.serverURL() + "/sum")
		must(err)
		u.RawQuery = q
		req := &http.Request{Method: "GET", URL: u, Header: http.Header{}, Host: u.Host}
		resp, err := http.DefaultClient.Do(req)
		if err != nil {
			s.obs("clirawsum transport-error")
			return
		}
		defer resp.Body.Close()
		data, _ := io.ReadAll(resp.Body)
		s.showWire("clirawsum", resp.StatusCode, data)
	}
}

func init() {
	// abortheld F: a client asks the server for a view of F while another handle holds F, and goes away before it is
	// answered; then the holder closes.  Whatever the server did with the abandoned request, nobody holds the file
	// for long afterwards: a new Open gets it.
	register("abortheld", func(s *sess, tk []string) {
		f := s.file(tk[1])
		s.closeAll()
		hold, err := os.OpenFile(f.path, os.O_RDWR, 0)
		must(err)
		must(flockEx(hold))
		// (a server in a process of its own: nothing there runs the garbage collector on the driver's behalf, so a
		// handle that was dropped without Close keeps its lock as it would in a real, idle server)
		u := s.serverURLFor(s.dir)
		conn, err := net.Dial("tcp", strings.TrimPrefix(u, "http://"))
		must(err)
		rel, _ := filepath.Rel(s.dir, f.path)
		now := wt.Timestamp(time.Now().Unix())
		fmt.Fprintf(conn, "GET /view?file=%s&retention=-1&from=%s&until=%s&now=%s HTTP/1.1\r\nHost: x\r\n\r\n", url.QueryEscape(rel),
			url.QueryEscape(wt.Timestamp(0).String()), url.QueryEscape(now.String()), url.QueryEscape(now.String()))
		time.Sleep(150 * time.Millisecond) // the handler is waiting for the file
		if tc, ok := conn.(*net.TCPConn); ok {
			tc.SetLinger(0)
		}
		conn.Close()
		time.Sleep(150 * time.Millisecond)
		hold.Close()
		res := "stuck"
		deadline := time.Now().Add(4 * time.Second)
		for time.Now().Before(deadline) {
			if free, err := flockProbe(f.path); err == nil && free {
				res = "released"
				break
			}
			time.Sleep(20 * time.Millisecond)
		}
		s.obs("abortheld %s", res)
	})
}

func init() {
	// clisumtick item=DIR pattern=PAT archive=N t=T step=D: GET /sum with now = the epoch (which means "the clock")
	// while the library's clock shows D seconds more at every reading.  The answer is an error (the files were
	// read at instants whose windows differ) or the sum for ONE of the instants seen -- compared with the answers
	// to the same request with each of those instants given explicitly.
	handlers["clisumtick"] = func(s *sess, tk []string) {
		a := parseKV(tk[1:])
		s.closeAll()
		s.echo(strings.Join(tk, " "))
		item := filepath.Base(s.dir) + "." + strings.ReplaceAll(a["item"], "/", ".")
		t, step := a.num("t", 0), a.num("step", 1)
		get := func(now string) (int, []byte) {
			u := fmt.Sprintf("%s/sum?item=%s&pattern=%s&retention=%d&from=%s&until=%s&now=%s", s.serverURL(), url.QueryEscape(item), url.QueryEscape(a["pattern"]),
				a.num("archive", -1), url.QueryEscape(wt.Timestamp(0).String()), url.QueryEscape(wt.Timestamp(t+100000).String()), url.QueryEscape(now))
			resp, err := http.Get(u)
			if err != nil {
				return -1, nil
			}
			defer resp.Body.Close()
			b, _ := io.ReadAll(resp.Body)
			return resp.StatusCode, b
		}
		old := wt.Now
		var mu sync.Mutex
		reads := int64(0)
		wt.Now = func() time.Time {
			mu.Lock()
			defer mu.Unlock()
			v := t + step*reads
			reads++
			return time.Unix(v, 0)
		}
		st0, body0 := get(wt.Timestamp(0).String())
		wt.Now = old
		verdict := "inconsistent"
		if st0 != 200 {
			verdict = "consistent"
		}
		for i := int64(0); i <= reads && verdict != "consistent"; i++ {
			if st, b := get(wt.Timestamp(t + step*i).String()); st == 200 && bytes.Equal(b, body0) {
				verdict = "consistent"
			}
		}
		s.obs("clisumtick %s", verdict)
	}
}
