package main

import (
	"encoding/hex"
	"fmt"
	"io"
	"net"
	"net/http"
	"net/url"
	"os"
	"path/filepath"
	"regexp"
	"sort"
	"strconv"
	"strings"
	"time"

	wt "github.com/hnakamur/whispertool"
	"github.com/hnakamur/whispertool/cmd"
)

// serverURL starts (once per run) the real "whispertool server" on a free local port, serving
// the run directory, and returns its base URL.
func (s *sess) serverURL() string {
	if u, ok := serverState["url"]; ok {
		return u
	}
	l, err := net.Listen("tcp", "127.0.0.1:0")
	must(err)
	addr := l.Addr().String()
	l.Close()
	c := &cmd.ServerCommand{Addr: addr, BaseDir: s.root}
	go func() { _ = c.Execute() }()
	u := "http://" + addr
	for i := 0; i < 200; i++ {
		resp, err := http.Get(u + "/files?pattern=nothing-here")
		if err == nil {
			resp.Body.Close()
			serverState["url"] = u
			return u
		}
		time.Sleep(10 * time.Millisecond)
	}
	must(fmt.Errorf("server did not start"))
	return ""
}

var serverState = map[string]string{}

func init() {
	// httpview file=<name> retention= from= until= now= : one raw HTTP round trip to /view with an
	// explicit (possibly past) clock; the response is decoded with the public codec API
	handlers["clihttpview"] = func(s *sess, tk []string) {
		a := parseKV(tk[1:])
		s.closeAll()
		s.echo(strings.Join(tk, " "))
		rel := filepath.Join(filepath.Base(s.dir), a["file"])
		u := fmt.Sprintf("%s/view?file=%s&retention=%s&from=%s&until=%s&now=%s", s.serverURL(), url.QueryEscape(rel), a["retention"],
			url.QueryEscape(wt.Timestamp(a.num("from", 0)).String()), url.QueryEscape(wt.Timestamp(a.num("until", 0)).String()),
			url.QueryEscape(wt.Timestamp(a.num("now", 0)).String()))
		resp, err := http.Get(u)
		if err != nil {
			s.obs("clihttpview transport-error")
			return
		}
		defer resp.Body.Close()
		data, _ := io.ReadAll(resp.Body)
		if resp.StatusCode != 200 {
			s.obs("clihttpview err")
			return
		}
		if len(data) == 0 {
			s.obs("clihttpview notexist")
			return
		}
		h := &wt.Header{}
		data, err = h.TakeFrom(data)
		if err != nil {
			s.obs("clihttpview undecodable-header")
			return
		}
		s.obs("clihttpview ok")
		s.obs("out wirehdr %s", showHeader(h))
		for i := range h.ArchiveInfoList() {
			ts := &wt.TimeSeries{}
			data, err = ts.TakeFrom(data)
			if err != nil {
				s.obs("out undecodable-series %d", i)
				return
			}
			s.obs("out %s", showSeries(ts))
		}
		s.obs("out rest %d", len(data))
	}
}

// showWire renders a /view or /sum response the way clihttpview does.
func (s *sess) showWire(op string, status int, data []byte) {
	if status == 400 {
		s.obs("%s bad", op)
		return
	}
	if status != 200 {
		s.obs("%s err", op)
		return
	}
	if len(data) == 0 {
		s.obs("%s notexist", op)
		return
	}
	h := &wt.Header{}
	data, err := h.TakeFrom(data)
	if err != nil {
		s.obs("%s undecodable-header", op)
		return
	}
	s.obs("%s ok", op)
	s.obs("out wirehdr %s", showHeader(h))
	for i := range h.ArchiveInfoList() {
		ts := &wt.TimeSeries{}
		data, err = ts.TakeFrom(data)
		if err != nil {
			s.obs("out undecodable-series %d", i)
			return
		}
		s.obs("out %s", showSeries(ts))
	}
	s.obs("out rest %d", len(data))
}

var tsToken = regexp.MustCompile(`TS\((\d+)\)`)

func init() {
	// clirawview q=<query template> : GET /view?<query> on the real server, the query taken as it is
	// (well-formed or not).  In the template CASEDIR stands for the directory of the case under the
	// served root and TS(n) for the timestamp text of n ("@-5" inside has been resolved already).
	handlers["clirawview"] = func(s *sess, tk []string) {
		a := parseKV(tk[1:])
		s.closeAll()
		q := strings.TrimPrefix(strings.Join(tk[1:], " "), "q=")
		_ = a
		prefix := filepath.Base(s.dir)
		q = strings.ReplaceAll(q, "CASEDIR", prefix)
		q = tsToken.ReplaceAllStringFunc(q, func(m string) string {
			n, _ := strconv.ParseInt(tsToken.FindStringSubmatch(m)[1], 10, 64)
			return wt.Timestamp(uint32(n)).String()
		})
		s.echo(fmt.Sprintf("clirawview q=%s prefix=%s", hexStr(q), hexStr(prefix)))
		// the raw query goes out exactly as written: no re-encoding by net/url
		u, err := url.Parse(s.serverURL() + "/view")
		must(err)
		u.RawQuery = q
		req := &http.Request{Method: "GET", URL: u, Header: http.Header{}, Host: u.Host}
		resp, err := http.DefaultClient.Do(req)
		if err != nil {
			s.obs("clirawview transport-error")
			return
		}
		defer resp.Body.Close()
		data, _ := io.ReadAll(resp.Body)
		s.showWire("clirawview", resp.StatusCode, data)
	}
	// cliquerycap src=<hex file name> archive= from= until= : the request the real client sends for a
	// view of a URL source, captured by a recording server (which answers "does not exist")
	handlers["cliquerycap"] = func(s *sess, tk []string) {
		a := parseKV(tk[1:])
		var gotPath, gotQuery string
		srv := &http.Server{Handler: http.HandlerFunc(func(w http.ResponseWriter, r *http.Request) {
			gotPath, gotQuery = r.URL.Path, r.URL.RawQuery
			w.Header().Set("Content-Type", "application/octet-stream")
		})}
		l, err := net.Listen("tcp", "127.0.0.1:0")
		must(err)
		go srv.Serve(l)
		defer srv.Close()
		file := ""
		if a["src"] != "-" {
			b, err := hex.DecodeString(a["src"])
			must(err)
			file = string(b)
		}
		c := &cmd.ViewCommand{SrcBase: "http://" + l.Addr().String(), SrcRelPath: file, From: wt.Timestamp(a.num("from", 0)), Until: wt.Timestamp(a.num("until", 0)),
			ArchiveID: int(a.num("archive", -1)), TextOut: "", ShowHeader: true}
		runCmd(c.Execute)
		now := "-"
		if v, err := url.ParseQuery(gotQuery); err == nil {
			if t, err := wt.ParseTimestamp(v.Get("now")); err == nil {
				now = fmt.Sprint(uint32(t))
			}
		}
		s.echo(fmt.Sprintf("%s now=%s", strings.Join(tk, " "), now))
		// what the request means, not how it is spelled: the parameters the server will read (decoded, sorted
		// by name; the order of parameters in the query is nothing the handler depends on)
		canon := "unparsable:" + hexStr(gotQuery)
		if v, err := url.ParseQuery(gotQuery); err == nil {
			var keys []string
			for k := range v {
				keys = append(keys, k)
			}
			sort.Strings(keys)
			var parts []string
			for _, k := range keys {
				for _, x := range v[k] {
					parts = append(parts, hexStr(k)+"="+hexStr(x))
				}
			}
			canon = strings.Join(parts, "&")
		}
		s.obs("cliquerycap path=%s q=%s", gotPath, canon)
	}
}

func init() {
	// clirawdump q=<query template> : GET /view-raw?<query> on the real server (see clirawview); the
	// point lists are compared as sets per archive (the physical order is not part of any property)
	handlers["clirawdump"] = func(s *sess, tk []string) {
		s.closeAll()
		q := strings.TrimPrefix(strings.Join(tk[1:], " "), "q=")
		if q == "-" {
			q = ""
		}
		prefix := filepath.Base(s.dir)
		q = strings.ReplaceAll(q, "CASEDIR", prefix)
		s.echo(fmt.Sprintf("clirawdump q=%s prefix=%s", hexStr(q), hexStr(prefix)))
		u, err := url.Parse(s.serverURL() + "/view-raw")
		must(err)
		u.RawQuery = q
		resp, err := http.DefaultClient.Do(&http.Request{Method: "GET", URL: u, Header: http.Header{}, Host: u.Host})
		if err != nil {
			s.obs("clirawdump transport-error")
			return
		}
		defer resp.Body.Close()
		data, _ := io.ReadAll(resp.Body)
		switch {
		case resp.StatusCode == 400:
			s.obs("clirawdump bad")
			return
		case resp.StatusCode != 200:
			s.obs("clirawdump err")
			return
		case len(data) == 0:
			s.obs("clirawdump notexist")
			return
		}
		h := &wt.Header{}
		data, err = h.TakeFrom(data)
		if err != nil {
			s.obs("clirawdump undecodable-header")
			return
		}
		s.obs("clirawdump ok")
		s.obs("out wirehdr %s", showHeader(h))
		for i := range h.ArchiveInfoList() {
			var pts wt.Points
			data, err = pts.TakeFrom(data)
			if err != nil {
				s.obs("out undecodable-points %d", i)
				return
			}
			var l []string
			for _, p := range pts {
				l = append(l, fmt.Sprintf("%010d:%s", uint32(p.Time), showVal(p.Value)))
			}
			sort.Strings(l)
			s.obs("out rawpts %d [%s]", i, strings.Join(l, " "))
		}
		s.obs("out rest %d", len(data))
	}
}

func init() {
	// clinewline : a served directory with a file whose name contains a line break, compared with
	// itself file by file (diff with a glob pattern), once through the directory and once through the
	// server's URL: globbing must find the same names both ways
	handlers["clinewline"] = func(s *sess, tk []string) {
		s.echo(strings.Join(tk, " "))
		dir := filepath.Join(s.dir, "nl")
		must(os.MkdirAll(dir, 0755))
		l := wt.ArchiveInfoList{wt.NewArchiveInfo(1, 10)}
		for _, name := range []string{"a.wsp", "b\nc.wsp"} {
			db, err := wt.Create(filepath.Join(dir, name), l, wt.Sum, 0.5)
			must(err)
			must(db.Sync())
			db.Close()
		}
		run := func(srcBase, pattern string) string {
			c := &cmd.DiffCommand{SrcBase: srcBase, SrcRelPath: pattern, DestBase: s.root, DestRelPath: "", ArchiveID: -1, TextOut: ""}
			err, panicked := runCmd(c.Execute)
			return statusOf(err, panicked)
		}
		rel := filepath.Join(filepath.Base(s.dir), "nl", "*.wsp")
		s.obs("clinewline local=%s remote=%s", run(s.root, rel), run(s.serverURL(), rel))
	}
}
