package main

import (
	"fmt"
	"net"
	"net/http"
	"time"

	"github.com/hnakamur/whispertool/cmd"
)

// serverURL starts (once per run) the real "whispertool server" on a free local port, serving
// the run directory, and returns its base URL.
func (s *sess) serverURL() string {
	if u, ok := serverState["url"]; ok {
		return u
	}
	l, err := net.Listen("tcp", "127.0.0.1:0")
	must(err)
	addr := l.Addr().String()
	l.Close()
	c := &cmd.ServerCommand{Addr: addr, BaseDir: s.root}
	go func() { _ = c.Execute() }()
	u := "http://" + addr
	for i := 0; i < 200; i++ {
		resp, err := http.Get(u + "/files?pattern=nothing-here")
		if err == nil {
			resp.Body.Close()
			serverState["url"] = u
			return u
		}
		time.Sleep(10 * time.Millisecond)
	}
	must(fmt.Errorf("server did not start"))
	return ""
}

var serverState = map[string]string{}
