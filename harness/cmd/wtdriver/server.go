package main

import (
	"fmt"
	"io"
	"net"
	"net/http"
	"net/url"
	"path/filepath"
	"strings"
	"time"

	wt "github.com/hnakamur/whispertool"
	"github.com/hnakamur/whispertool/cmd"
)

// serverURL starts (once per run) the real "whispertool server" on a free local port, serving
// the run directory, and returns its base URL.
func (s *sess) serverURL() string {
	if u, ok := serverState["url"]; ok {
		return u
	}
	l, err := net.Listen("tcp", "127.0.0.1:0")
	must(err)
	addr := l.Addr().String()
	l.Close()
	c := &cmd.ServerCommand{Addr: addr, BaseDir: s.root}
	go func() { _ = c.Execute() }()
	u := "http://" + addr
	for i := 0; i < 200; i++ {
		resp, err := http.Get(u + "/files?pattern=nothing-here")
		if err == nil {
			resp.Body.Close()
			serverState["url"] = u
			return u
		}
		time.Sleep(10 * time.Millisecond)
	}
	must(fmt.Errorf("server did not start"))
	return ""
}

var serverState = map[string]string{}

func init() {
	// httpview file=<name> retention= from= until= now= : one raw HTTP round trip to /view with an
	// explicit (possibly past) clock; the response is decoded with the public codec API
	handlers["clihttpview"] = func(s *sess, tk []string) {
		a := parseKV(tk[1:])
		s.closeAll()
		s.echo(strings.Join(tk, " "))
		rel := filepath.Join(filepath.Base(s.dir), a["file"])
		u := fmt.Sprintf("%s/view?file=%s&retention=%s&from=%s&until=%s&now=%s", s.serverURL(), url.QueryEscape(rel), a["retention"],
			url.QueryEscape(wt.Timestamp(a.num("from", 0)).String()), url.QueryEscape(wt.Timestamp(a.num("until", 0)).String()),
			url.QueryEscape(wt.Timestamp(a.num("now", 0)).String()))
		resp, err := http.Get(u)
		if err != nil {
			s.obs("clihttpview transport-error")
			return
		}
		defer resp.Body.Close()
		data, _ := io.ReadAll(resp.Body)
		if resp.StatusCode != 200 {
			s.obs("clihttpview err")
			return
		}
		if len(data) == 0 {
			s.obs("clihttpview notexist")
			return
		}
		h := &wt.Header{}
		data, err = h.TakeFrom(data)
		if err != nil {
			s.obs("clihttpview undecodable-header")
			return
		}
		s.obs("clihttpview ok")
		s.obs("out wirehdr %s", showHeader(h))
		for i := range h.ArchiveInfoList() {
			ts := &wt.TimeSeries{}
			data, err = ts.TakeFrom(data)
			if err != nil {
				s.obs("out undecodable-series %d", i)
				return
			}
			s.obs("out %s", showSeries(ts))
		}
		s.obs("out rest %d", len(data))
	}
}
