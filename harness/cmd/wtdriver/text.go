package main

import (
	"encoding/hex"
	"flag"
	"fmt"
	"io"
	"math"
	"strconv"

	wt "github.com/hnakamur/whispertool"
	"github.com/hnakamur/whispertool/cmd"
)

// strings travel hex-encoded ("-" is the empty string)
func strArg(s string) string { return string(unhex(s)) }
func strOut(s string) string { return hexOrDash([]byte(s)) }

func copyFlagSet() (*cmd.CopyCommand, *flag.FlagSet) {
	c := &cmd.CopyCommand{}
	fs := flag.NewFlagSet("copy", flag.ContinueOnError)
	fs.SetOutput(io.Discard)
	c.Parse(fs, []string{})
	return c, fs
}

func showAinfos(l wt.ArchiveInfoList) string {
	var b []byte
	for i := range l {
		b = l[i].AppendTo(b)
	}
	return hex.EncodeToString(b)
}

func init() {
	register("pdur", func(s *sess, tk []string) {
		d, err := wt.ParseDuration(strArg(tk[1]))
		if err != nil {
			s.obs("pdur err")
		} else {
			s.obs("pdur ok %d", int32(d))
		}
	})
	register("sdur", func(s *sess, tk []string) {
		s.obs("sdur %s", strOut(wt.Duration(int32(atoi(tk[1]))).String()))
	})
	register("pts", func(s *sess, tk []string) {
		t, err := wt.ParseTimestamp(strArg(tk[1]))
		if err != nil {
			s.obs("pts err")
		} else {
			s.obs("pts ok %d", uint32(t))
		}
	})
	register("sts", func(s *sess, tk []string) {
		s.obs("sts %s", strOut(wt.Timestamp(atoi(tk[1])).String()))
	})
	register("pinfo", func(s *sess, tk []string) {
		a, err := wt.ParseArchiveInfo(strArg(tk[1]))
		if err != nil {
			s.obs("pinfo err")
		} else {
			s.obs("pinfo ok %d %d", int32(a.SecondsPerPoint()), a.NumberOfPoints())
		}
	})
	register("plist", func(s *sess, tk []string) {
		l, err := wt.ParseArchiveInfoList(strArg(tk[1]))
		if err != nil {
			s.obs("plist err")
		} else {
			s.obs("plist ok %s", showAinfos(l))
		}
	})
	// slist <k> s n ...
	register("slist", func(s *sess, tk []string) {
		l, _ := parseLayout(tk[1:])
		s.obs("slist %s", strOut(l.String()))
	})
	register("pmeth", func(s *sess, tk []string) {
		m, err := wt.AggregationMethodString(strArg(tk[1]))
		if err != nil {
			s.obs("pmeth err")
		} else {
			s.obs("pmeth ok %d", int(m))
		}
	})
	register("smeth", func(s *sess, tk []string) {
		s.obs("smeth %s", strOut(wt.AggregationMethod(atoi(tk[1])).String()))
	})
	// CLI flag values (cmd/flags.go), reached through a command's flag set
	register("flagmeth", func(s *sess, tk []string) {
		c, fs := copyFlagSet()
		if err := fs.Set("agg-method", strArg(tk[1])); err != nil {
			s.obs("flagmeth err")
		} else {
			s.obs("flagmeth ok %d", int(c.AggregationMethod))
		}
	})
	register("flaglist", func(s *sess, tk []string) {
		c, fs := copyFlagSet()
		if err := fs.Set("retentions", strArg(tk[1])); err != nil {
			s.obs("flaglist err")
		} else {
			s.obs("flaglist ok %s", showAinfos(c.ArchiveInfoList))
		}
	})
	register("flagts", func(s *sess, tk []string) {
		c, fs := copyFlagSet()
		if err := fs.Set("from", strArg(tk[1])); err != nil {
			s.obs("flagts err")
		} else {
			s.obs("flagts ok %d", uint32(c.From))
		}
	})
}

// flagxff <str>: the decimal-to-binary conversion (strconv.ParseFloat) is Go's own and is not
// modelled: the driver tells the model what ParseFloat returned (pf=<float64 bits>|err).
func init() {
	handlers["cliflagxff"] = func(s *sess, tk []string) {
		str := strArg(tk[1])
		f, err := strconv.ParseFloat(str, 32)
		pf := "err"
		if err == nil {
			pf = fmt.Sprintf("%016x", math.Float64bits(f))
		}
		s.echo(fmt.Sprintf("cliflagxff %s pf=%s", tk[1], pf))
		c, fs := copyFlagSet()
		if err := fs.Set("x-files-factor", str); err != nil {
			s.obs("cliflagxff err")
		} else {
			s.obs("cliflagxff ok %08x", math.Float32bits(c.XFilesFactor))
		}
	}
}
