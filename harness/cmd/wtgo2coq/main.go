// wtgo2coq REPO OUT.v : translates the integer kernel of package whispertool (the root package of
// REPO, as it is in the working tree) into Gallina, so that the hand-written model can be PROVED
// equal to what the source says now (coq/theories/Proofs/KernelTie.v), for all inputs, on every run.
//
// What is translated:
//   - every package-level constant with an integer value (the compiler's own constant evaluation,
//     go/types), as  Definition go_const_<name> : Z := <value>.
//   - the functions and methods named in `kernel` below, when their bodies stay inside this subset:
//     parameters / receiver fields of integer type; statements  x := e (integer or boolean),  x = e,
//     x op= e,  if c { ... } [else { ... }],  if c { x = e },  return e;  expressions built from + - * / %,
//     unary -, comparisons, && || !, == and != on booleans, conversions between integer types,
//     parentheses, constants, and calls of other functions and methods of the package that stay inside the
//     subset themselves (translated on demand, before their caller).
//   - functions that return an error are rendered as the boolean "returns nil" (return nil = true, any other
//     return = false;  if err := f(...); err != nil { ... }  tests the negation of f's boolean); a method on a
//     slice of structs may contain ONE loop  for i, a := range aa { ... }  with break, x := aa[i+1], len(aa) and
//     assignments to integer variables declared before it: the loop becomes a Fixpoint over the remaining
//     elements (tuples of the fields in structFields) that carries index, length and the assigned variables.
//     This is what ArchiveInfoList.validate needs.  A method of a struct may range in the same way over a
//     field that is a slice of structs (structSliceFields), which then becomes a list parameter behind the
//     integer fields, and the loop's Fixpoint returns what the function returns: Header.ExpectedFileSize.
//     A method without result on a slice of structs whose loop rewrites fields of the current element
//     (a := &aa[i]; a.f = e) is rendered as the function returning the new list: ArchiveInfoList.fillOffset.
//     Every arithmetic result and every conversion is wrapped to the width of its Go type (u32, i32,
//     u64, i64; int and uint are 64 bits wide); / and % are Z.quot and Z.rem.
//     A receiver of struct type contributes the parameters listed in structFields.
//   - a function outside the subset is not emitted; a comment says why (KernelTie.v then fails to
//     compile at the lemma that needs it, which is reported as a proof obligation that no longer checks).
//
// The program depends on the Go standard library only.  Imports of the translated package are
// satisfied by empty stand-ins: the kernel functions use none of them, and type errors elsewhere in
// the package are ignored.
package main

import (
	"fmt"
	"go/ast"
	"go/constant"
	"go/parser"
	"go/token"
	"go/types"
	"os"
	"path/filepath"
	"sort"
	"strings"
)

// kernel lists what is translated, in dependency order: "Func" or "Recv.Method".
var kernel = []string{
	"floorMod",
	"Timestamp.Add", "Timestamp.Sub", "Timestamp.Truncate",
	"ArchiveInfo.MaxRetention", "ArchiveInfo.pointIndex", "ArchiveInfo.pointOffsetAt",
	"ArchiveInfo.interval", "ArchiveInfo.intervalForWrite",
	"Header.Size",
	"ArchiveInfo.validate", "ArchiveInfoList.validate",
	"Header.ExpectedFileSize",
	"ArchiveInfoList.fillOffset",
}

type fakeImporter struct{ pkgs map[string]*types.Package }

func (f *fakeImporter) Import(path string) (*types.Package, error) {
	if p, ok := f.pkgs[path]; ok {
		return p, nil
	}
	name := path
	if i := strings.LastIndex(path, "/"); i >= 0 {
		name = path[i+1:]
	}
	p := types.NewPackage(path, name)
	p.MarkComplete()
	f.pkgs[path] = p
	return p, nil
}

type unsupported struct{ why string }

func fail(format string, a ...interface{}) { panic(unsupported{fmt.Sprintf(format, a...)}) }

// structFields fixes, per struct type, the integer fields a method of it may read and the order in which
// they become parameters (so that adding a field elsewhere in the struct changes nothing here).
var structFields = map[string][]string{
	"ArchiveInfo": {"offset", "secondsPerPoint", "numberOfPoints"},
	"Header":      {"aggregationMethod", "maxRetention", "archiveCount"},
}

// structSliceFields names, per struct type, the fields that are slices of structs a method may range over (they
// become a list parameter of the methods that do).
var structSliceFields = map[string]map[string]string{
	"Header": {"archiveInfoList": "ArchiveInfo"},
}

type world struct {
	info  *types.Info
	fset  *token.FileSet
	decls map[string]*ast.FuncDecl
	state map[string]int // 0 unseen, 1 in progress, 2 emitted, 3 failed
	why   map[string]string
	out   *strings.Builder
}

type tr struct {
	*world
	recv     string            // name of a struct receiver, "" if none
	recvType string            // its type name
	fields   map[string]string // field name -> parameter name, for the struct receiver
	bools    map[string]bool   // local variables of type bool
	structs  map[string]svar   // struct-valued variables (receiver, loop variable, locals): their fields
	errMode  bool              // the function returns an error: rendered as the boolean "it returns nil"
	loop     *loopCtx          // set while the body of the range loop is translated
	slice    string            // name of a receiver of slice type, "" if none
	fname    string            // the function being translated
	resType  string            // "Z" or "bool"
	mutMode  bool              // no result: the function rewrites the elements of its slice receiver; rendered as the new list
	cur      []string          // mutMode: the Coq names of the current element's fields
	pre      strings.Builder   // definitions to be written out before it (the Fixpoint of its loop)
}

type svar struct {
	typ    string
	fields map[string]string
}

type loopCtx struct {
	index, rest string // the index variable, the Coq name of the remaining elements
	after       string // what the statements behind the loop evaluate to
	again       func() string
}

func wrapOf(t types.Type) string {
	b, ok := t.Underlying().(*types.Basic)
	if !ok {
		fail("type %s is not an integer type", t)
	}
	switch b.Kind() {
	case types.Int32:
		return "i32"
	case types.Uint32:
		return "u32"
	case types.Int64, types.Int:
		return "i64"
	case types.Uint64, types.Uint:
		return "u64"
	case types.UntypedInt:
		return ""
	}
	fail("type %s is outside the subset", t)
	return ""
}

func isInteger(t types.Type) bool {
	b, ok := t.Underlying().(*types.Basic)
	return ok && b.Info()&types.IsInteger != 0
}

func wrap(w, e string) string {
	if w == "" {
		return e
	}
	return "(" + w + " " + e + ")"
}

func zlit(v constant.Value) string {
	s := v.ExactString()
	if strings.HasPrefix(s, "-") {
		return "(" + s + ")"
	}
	return s
}

func (t *tr) typeOf(e ast.Expr) types.Type {
	ty := t.info.TypeOf(e)
	if ty == nil {
		fail("no type for expression at %s", t.fset.Position(e.Pos()))
	}
	return ty
}

// expr translates an integer-valued expression.
func (t *tr) expr(e ast.Expr) string {
	if tv, ok := t.info.Types[e]; ok && tv.Value != nil {
		if tv.Value.Kind() != constant.Int {
			fail("non-integer constant at %s", t.fset.Position(e.Pos()))
		}
		return zlit(tv.Value)
	}
	switch x := e.(type) {
	case *ast.ParenExpr:
		return t.expr(x.X)
	case *ast.Ident:
		if !isInteger(t.typeOf(x)) {
			fail("identifier %s is not an integer", x.Name)
		}
		return "v_" + x.Name
	case *ast.SelectorExpr:
		if id, ok := x.X.(*ast.Ident); ok && id.Name == t.recv && t.recv != "" {
			if p, ok := t.fields[x.Sel.Name]; ok {
				return p
			}
		}
		if id, ok := x.X.(*ast.Ident); ok {
			if sv, ok := t.structs[id.Name]; ok {
				if p, ok := sv.fields[x.Sel.Name]; ok {
					return p
				}
			}
			if id.Name == "math" {
				if v, ok := map[string]string{"MaxInt32": "2147483647", "MaxUint32": "4294967295", "MaxInt64": "9223372036854775807", "MinInt32": "(-2147483648)"}[x.Sel.Name]; ok {
					return v
				}
			}
		}
		fail("selector %s at %s", x.Sel.Name, t.fset.Position(e.Pos()))
	case *ast.UnaryExpr:
		switch x.Op {
		case token.SUB:
			return wrap(wrapOf(t.typeOf(e)), "(- "+t.expr(x.X)+")")
		case token.ADD:
			return t.expr(x.X)
		}
		fail("unary operator %s", x.Op)
	case *ast.BinaryExpr:
		a, b := t.expr(x.X), t.expr(x.Y)
		w := wrapOf(t.typeOf(e))
		switch x.Op {
		case token.ADD:
			return wrap(w, "("+a+" + "+b+")")
		case token.SUB:
			return wrap(w, "("+a+" - "+b+")")
		case token.MUL:
			return wrap(w, "("+a+" * "+b+")")
		case token.QUO:
			return wrap(w, "(Z.quot "+a+" "+b+")")
		case token.REM:
			return wrap(w, "(Z.rem "+a+" "+b+")")
		}
		fail("binary operator %s", x.Op)
	case *ast.CallExpr:
		// conversion
		if tv, ok := t.info.Types[x.Fun]; ok && tv.IsType() {
			if len(x.Args) != 1 {
				fail("conversion with %d arguments", len(x.Args))
			}
			return wrap(wrapOf(tv.Type), t.expr(x.Args[0]))
		}
		if f, ok := x.Fun.(*ast.Ident); ok && f.Name == "len" && len(x.Args) == 1 {
			if id, ok := x.Args[0].(*ast.Ident); ok && id.Name == t.slice && t.slice != "" {
				return "v_len_" + id.Name
			}
			fail("len at %s", t.fset.Position(e.Pos()))
		}
		// call of another function or method of the package: translated on demand
		var name string
		var args []string
		switch f := x.Fun.(type) {
		case *ast.Ident:
			name = f.Name
		case *ast.SelectorExpr:
			rt := t.typeOf(f.X)
			if p, ok := rt.(*types.Pointer); ok {
				rt = p.Elem()
			}
			n, ok := rt.(*types.Named)
			if !ok {
				fail("method call on %s at %s", rt, t.fset.Position(e.Pos()))
			}
			name = n.Obj().Name() + "." + f.Sel.Name
			if isInteger(rt) {
				args = append(args, t.expr(f.X))
			} else if id, ok := f.X.(*ast.Ident); ok && id.Name == t.recv && t.recv != "" && n.Obj().Name() == t.recvType {
				for _, fn := range structFields[t.recvType] {
					args = append(args, t.fields[fn])
				}
			} else if id, ok := f.X.(*ast.Ident); ok && t.structs[id.Name].typ == n.Obj().Name() && structFields[n.Obj().Name()] != nil {
				for _, fn := range structFields[n.Obj().Name()] {
					args = append(args, t.structs[id.Name].fields[fn])
				}
			} else {
				fail("method call on %s at %s", rt, t.fset.Position(e.Pos()))
			}
		default:
			fail("call at %s", t.fset.Position(e.Pos()))
		}
		if !t.world.ensure(name) {
			fail("call of %s, which is outside the translated subset (%s)", name, t.why[name])
		}
		for _, a := range x.Args {
			args = append(args, t.expr(a))
		}
		return "(" + coqName(name) + " " + strings.Join(args, " ") + ")"
	}
	fail("expression at %s", t.fset.Position(e.Pos()))
	return ""
}

// cond translates a boolean expression.
func (t *tr) cond(e ast.Expr) string {
	switch x := e.(type) {
	case *ast.ParenExpr:
		return t.cond(x.X)
	case *ast.Ident:
		if t.bools[x.Name] {
			return "b_" + x.Name
		}
		if x.Name == "true" || x.Name == "false" {
			return x.Name
		}
	case *ast.UnaryExpr:
		if x.Op == token.NOT {
			return "(negb " + t.cond(x.X) + ")"
		}
	case *ast.BinaryExpr:
		switch x.Op {
		case token.LAND:
			return "(" + t.cond(x.X) + " && " + t.cond(x.Y) + ")"
		case token.LOR:
			return "(" + t.cond(x.X) + " || " + t.cond(x.Y) + ")"
		}
		if bt, isB := t.typeOf(x.X).Underlying().(*types.Basic); isB && bt.Info()&types.IsBoolean != 0 {
			switch x.Op {
			case token.EQL:
				return "(Bool.eqb " + t.cond(x.X) + " " + t.cond(x.Y) + ")"
			case token.NEQ:
				return "(xorb " + t.cond(x.X) + " " + t.cond(x.Y) + ")"
			}
		}
		ops := map[token.Token]string{token.EQL: "=?", token.LSS: "<?", token.GTR: ">?", token.LEQ: "<=?", token.GEQ: ">=?"}
		if op, ok := ops[x.Op]; ok {
			return "(" + t.expr(x.X) + " " + op + " " + t.expr(x.Y) + ")"
		}
		if x.Op == token.NEQ {
			return "(negb (" + t.expr(x.X) + " =? " + t.expr(x.Y) + "))"
		}
	}
	fail("condition at %s", t.fset.Position(e.Pos()))
	return ""
}

// bindStruct makes name a struct-valued variable whose fields are fresh Coq names; elemOf names the slice
// whose element type it has.
func (t *tr) bindStruct(name, elemOf string) svar {
	sv := svar{typ: t.structs["["+elemOf+"]"].typ, fields: map[string]string{}}
	for _, f := range structFields[sv.typ] {
		sv.fields[f] = "e_" + name + "_" + f
	}
	t.structs[name] = sv
	return sv
}

// rangeLoop translates  for i, a := range aa { body }  over the slice receiver aa, followed by the statements
// rest, as a Fixpoint over the remaining elements that carries the index, the length and every integer
// variable the body assigns; the Fixpoint is written out before the function itself.
func (t *tr) rangeLoop(s *ast.RangeStmt, rest []ast.Stmt, indent string) string {
	name := ""
	switch x := s.X.(type) {
	case *ast.Ident:
		name = x.Name
	case *ast.SelectorExpr:
		if id, ok := x.X.(*ast.Ident); ok && id.Name == t.recv && t.recv != "" {
			name = x.Sel.Name
		}
	}
	if name == "" || name != t.slice || t.loop != nil || s.Tok != token.DEFINE {
		fail("range statement at %s", t.fset.Position(s.Pos()))
	}
	key, ok1 := s.Key.(*ast.Ident)
	val, ok2 := s.Value.(*ast.Ident)
	if s.Value == nil && t.mutMode {
		val, ok2 = &ast.Ident{Name: "cur_"}, true
	}
	if !ok1 || !ok2 || val.Name == "_" {
		fail("range statement at %s", t.fset.Position(s.Pos()))
	}
	if key.Name == "_" {
		key = &ast.Ident{Name: "index_"}
	}
	after := t.stmts(rest, indent+"    ")
	var accs []string
	seen := map[string]bool{}
	ast.Inspect(s.Body, func(n ast.Node) bool {
		if as, ok := n.(*ast.AssignStmt); ok && as.Tok != token.DEFINE && len(as.Lhs) == 1 {
			if id, ok := as.Lhs[0].(*ast.Ident); ok && !seen[id.Name] {
				seen[id.Name] = true
				accs = append(accs, "v_"+id.Name)
			}
		}
		return true
	})
	fname := coqName(t.fname) + "_loop"
	carried := append([]string{"v_" + key.Name, "v_len_" + t.slice}, accs...)
	sv := t.bindStruct(val.Name, t.slice)
	var names []string
	for _, f := range structFields[sv.typ] {
		names = append(names, sv.fields[f])
	}
	t.cur = names
	t.loop = &loopCtx{index: key.Name, rest: "rest", after: after, again: func() string {
		next := "(" + fname + " rest (i64 (v_" + key.Name + " + 1)) " + strings.Join(carried[1:], " ") + ")"
		if t.mutMode {
			return "(" + strings.Join(names, ", ") + ") :: " + next
		}
		return next
	}}
	body := t.stmts(s.Body.List, "    ")
	t.loop = nil
	delete(t.structs, val.Name)
	tuple := strings.TrimSuffix(strings.Repeat("Z * ", len(names)), " * ")
	fmt.Fprintf(&t.pre, "Fixpoint %s (rest0 : list (%s)) (%s : Z) {struct rest0} : "+t.resType+" :=\n  match rest0 with\n  | [] => %s\n  | (%s) :: rest =>\n    %s\n  end.\n",
		fname, tuple, strings.Join(carried, " "), after, strings.Join(names, ", "), body)
	return "(" + fname + " v_" + t.slice + " 0 " + strings.Join(carried[1:], " ") + ")"
}

// reassign translates x = e / x op= e on a local integer variable into the binding "v_x := e'".
func (t *tr) reassign(s *ast.AssignStmt) string {
	id, ok := s.Lhs[0].(*ast.Ident)
	if !ok || !isInteger(t.typeOf(id)) {
		fail("assignment target at %s", t.fset.Position(s.Pos()))
	}
	if _, isVar := t.info.ObjectOf(id).(*types.Var); !isVar {
		fail("assignment target at %s", t.fset.Position(s.Pos()))
	}
	w := wrapOf(t.typeOf(id))
	a, b := "v_"+id.Name, t.expr(s.Rhs[0])
	switch s.Tok {
	case token.ASSIGN:
		return a + " := " + b
	case token.ADD_ASSIGN:
		return a + " := " + wrap(w, "("+a+" + "+b+")")
	case token.SUB_ASSIGN:
		return a + " := " + wrap(w, "("+a+" - "+b+")")
	case token.MUL_ASSIGN:
		return a + " := " + wrap(w, "("+a+" * "+b+")")
	case token.QUO_ASSIGN:
		return a + " := " + wrap(w, "(Z.quot "+a+" "+b+")")
	case token.REM_ASSIGN:
		return a + " := " + wrap(w, "(Z.rem "+a+" "+b+")")
	}
	fail("assignment operator %s", s.Tok)
	return ""
}

func terminates(stmts []ast.Stmt) bool {
	if len(stmts) == 0 {
		return false
	}
	switch s := stmts[len(stmts)-1].(type) {
	case *ast.ReturnStmt:
		return true
	case *ast.BranchStmt:
		return s.Tok == token.BREAK
	case *ast.IfStmt:
		if s.Else == nil {
			return false
		}
		eb, ok := s.Else.(*ast.BlockStmt)
		return ok && terminates(s.Body.List) && terminates(eb.List)
	}
	return false
}

// stmts translates a statement list that ends in a return on every path.
func (t *tr) stmts(l []ast.Stmt, indent string) string {
	if len(l) == 0 {
		if t.loop != nil {
			return t.loop.again() // the end of the loop body: on to the next element
		}
		if t.mutMode {
			return "[]" // behind the loop: nothing more is rewritten
		}
		fail("a path without return")
	}
	switch s := l[0].(type) {
	case *ast.ReturnStmt:
		if len(s.Results) != 1 {
			fail("return with %d results", len(s.Results))
		}
		if t.errMode {
			if id, ok := s.Results[0].(*ast.Ident); ok && id.Name == "nil" {
				return "true"
			}
			return "false"
		}
		return t.expr(s.Results[0])
	case *ast.BranchStmt:
		if s.Tok == token.BREAK && s.Label == nil && t.loop != nil {
			return t.loop.after
		}
		fail("branch statement at %s", t.fset.Position(s.Pos()))
	case *ast.RangeStmt:
		return t.rangeLoop(s, l[1:], indent)
	case *ast.AssignStmt:
		if se, isSel := s.Lhs[0].(*ast.SelectorExpr); isSel && s.Tok == token.ASSIGN && len(s.Lhs) == 1 && len(s.Rhs) == 1 && t.mutMode && t.loop != nil {
			// a.f = e  on the current element: a new binding of that field
			if id, ok := se.X.(*ast.Ident); ok {
				if sv, ok := t.structs[id.Name]; ok {
					if fn, ok := sv.fields[se.Sel.Name]; ok {
						w := wrapOf(t.typeOf(se))
						return "let " + fn + " := " + wrap(w, t.expr(s.Rhs[0])) + " in\n" + indent + t.stmts(l[1:], indent)
					}
				}
			}
			fail("field assignment at %s", t.fset.Position(s.Pos()))
		}
		if s.Tok != token.DEFINE && len(s.Lhs) == 1 && len(s.Rhs) == 1 {
			// x = e, x += e, ... on a local integer variable: a new binding that shadows the old one
			return "let " + t.reassign(s) + " in\n" + indent + t.stmts(l[1:], indent)
		}
		if s.Tok != token.DEFINE || len(s.Lhs) != 1 || len(s.Rhs) != 1 {
			fail("assignment at %s", t.fset.Position(s.Pos()))
		}
		id, ok := s.Lhs[0].(*ast.Ident)
		if !ok {
			fail("assignment target at %s", t.fset.Position(s.Pos()))
		}
		if u, isU := s.Rhs[0].(*ast.UnaryExpr); isU && u.Op == token.AND && t.loop != nil && t.mutMode {
			// a := &aa[i] inside the loop over aa: a names the current element
			if ix, ok := u.X.(*ast.IndexExpr); ok {
				sl, ok1 := ix.X.(*ast.Ident)
				iv, ok2 := ix.Index.(*ast.Ident)
				if ok1 && ok2 && sl.Name == t.slice && iv.Name == t.loop.index {
					sv := svar{typ: t.structs["["+t.slice+"]"].typ, fields: map[string]string{}}
					for j, f := range structFields[sv.typ] {
						sv.fields[f] = t.cur[j]
					}
					t.structs[id.Name] = sv
					return t.stmts(l[1:], indent)
				}
			}
			fail("address expression at %s", t.fset.Position(s.Pos()))
		}
		if ix, isIx := s.Rhs[0].(*ast.IndexExpr); isIx && t.loop != nil {
			// x := aa[i+1] inside the loop over aa: the element after the current one
			sl, ok1 := ix.X.(*ast.Ident)
			b, ok2 := ix.Index.(*ast.BinaryExpr)
			if ok1 && ok2 && sl.Name == t.slice && b.Op == token.ADD {
				iv, ok3 := b.X.(*ast.Ident)
				if tv, ok4 := t.info.Types[b.Y]; ok3 && ok4 && iv.Name == t.loop.index && tv.Value != nil && tv.Value.ExactString() == "1" {
					sv := t.bindStruct(id.Name, t.slice)
					var names []string
					for _, f := range structFields[sv.typ] {
						names = append(names, sv.fields[f])
					}
					zeros := strings.TrimSuffix(strings.Repeat("0, ", len(names)), ", ")
					return "let '(" + strings.Join(names, ", ") + ") := match " + t.loop.rest + " with nx :: _ => nx | [] => (" + zeros + ") end in\n" + indent + t.stmts(l[1:], indent)
				}
			}
			fail("index expression at %s", t.fset.Position(s.Pos()))
		}
		if b, ok := t.typeOf(s.Rhs[0]).Underlying().(*types.Basic); ok && b.Info()&types.IsBoolean != 0 {
			c := t.cond(s.Rhs[0])
			t.bools[id.Name] = true
			return "let b_" + id.Name + " := " + c + " in\n" + indent + t.stmts(l[1:], indent)
		}
		return "let v_" + id.Name + " := " + t.expr(s.Rhs[0]) + " in\n" + indent + t.stmts(l[1:], indent)
	case *ast.IfStmt:
		var c string
		if s.Init != nil {
			// if err := f(...); err != nil { ... }  with f rendered as the boolean "returns nil"
			as, ok := s.Init.(*ast.AssignStmt)
			b, ok2 := s.Cond.(*ast.BinaryExpr)
			if !ok || !ok2 || as.Tok != token.DEFINE || len(as.Lhs) != 1 || len(as.Rhs) != 1 || b.Op != token.NEQ {
				fail("if with init statement")
			}
			ev, ok3 := as.Lhs[0].(*ast.Ident)
			cx, ok4 := b.X.(*ast.Ident)
			cy, ok5 := b.Y.(*ast.Ident)
			call, ok6 := as.Rhs[0].(*ast.CallExpr)
			if !ok3 || !ok4 || !ok5 || !ok6 || cx.Name != ev.Name || cy.Name != "nil" || t.typeOf(call).String() != "error" {
				fail("if with init statement")
			}
			c = "(negb " + t.expr(call) + ")"
		} else {
			c = t.cond(s.Cond)
		}
		if !terminates(s.Body.List) {
			// if c { x = e } with nothing else in the body and no else: x := if c then e' else x
			if s.Else != nil || len(s.Body.List) != 1 {
				fail("if body that falls through at %s", t.fset.Position(s.Pos()))
			}
			as, isA := s.Body.List[0].(*ast.AssignStmt)
			if !isA || as.Tok == token.DEFINE || len(as.Lhs) != 1 || len(as.Rhs) != 1 {
				fail("if body that falls through at %s", t.fset.Position(s.Pos()))
			}
			bind := t.reassign(as) // "v_x := e'"
			i := strings.Index(bind, " := ")
			return "let " + bind[:i] + " := if " + c + " then " + bind[i+4:] + " else " + bind[:i] + " in\n" + indent + t.stmts(l[1:], indent)
		}
		th := t.stmts(s.Body.List, indent+"  ")
		var el string
		if s.Else != nil {
			switch eb := s.Else.(type) {
			case *ast.BlockStmt:
				if terminates(eb.List) {
					el = t.stmts(eb.List, indent+"  ")
				} else {
					fail("else branch that falls through")
				}
			case *ast.IfStmt:
				el = t.stmts(append([]ast.Stmt{eb}, l[1:]...), indent+"  ")
			}
		} else {
			el = t.stmts(l[1:], indent+"  ")
		}
		return "if " + c + "\n" + indent + "then " + th + "\n" + indent + "else " + el
	}
	fail("statement at %s", t.fset.Position(l[0].Pos()))
	return ""
}

// ensure translates function k (and, first, what it calls) unless that has been done; false = not translatable.
func (w *world) ensure(k string) (ok bool) {
	switch w.state[k] {
	case 2:
		return true
	case 3:
		return false
	case 1:
		w.why[k] = "recursion"
		return false
	}
	fd := w.decls[k]
	if fd == nil {
		w.state[k], w.why[k] = 3, "no such function in the package"
		return false
	}
	w.state[k] = 1
	defer func() {
		if r := recover(); r != nil {
			if u, isU := r.(unsupported); isU {
				w.state[k], w.why[k], ok = 3, u.why, false
				return
			}
			panic(r)
		}
	}()
	t := &tr{world: w, fields: map[string]string{}, bools: map[string]bool{}, structs: map[string]svar{}, fname: k}
	sliceParam := ""
	info, fset := w.info, w.fset
	var params []string
	if fd.Recv != nil {
		r := fd.Recv.List[0]
		rname := "_"
		if len(r.Names) == 1 {
			rname = r.Names[0].Name
		}
		rt := info.TypeOf(r.Type)
		if p, isP := rt.(*types.Pointer); isP {
			rt = p.Elem()
		}
		if _, isS := rt.Underlying().(*types.Struct); isS {
			n, isN := rt.(*types.Named)
			if !isN || structFields[n.Obj().Name()] == nil {
				fail("receiver type %s", rt)
			}
			t.recv, t.recvType = rname, n.Obj().Name()
			for _, f := range structFields[t.recvType] {
				t.fields[f] = "f_" + f
				params = append(params, "f_"+f)
			}
			// a slice field the body ranges over becomes a list parameter (behind the integer fields)
			ast.Inspect(fd.Body, func(nd ast.Node) bool {
				if rs, ok := nd.(*ast.RangeStmt); ok {
					if se, ok := rs.X.(*ast.SelectorExpr); ok {
						if id, ok := se.X.(*ast.Ident); ok && id.Name == rname {
							if et, ok := structSliceFields[t.recvType][se.Sel.Name]; ok && t.slice == "" {
								t.slice = se.Sel.Name
								t.structs["["+t.slice+"]"] = svar{typ: et}
								tuple := strings.TrimSuffix(strings.Repeat("Z * ", len(structFields[et])), " * ")
								sliceParam = "(v_" + t.slice + " : list (" + tuple + "))"
							}
						}
					}
				}
				return true
			})
		} else if isInteger(rt) {
			params = append(params, "v_"+rname)
		} else if sl, isSl := rt.Underlying().(*types.Slice); isSl {
			// a slice of structs: a list of tuples of the fields listed in structFields
			en, isN := sl.Elem().(*types.Named)
			if !isN || structFields[en.Obj().Name()] == nil {
				fail("receiver type %s", rt)
			}
			t.slice = rname
			t.structs["["+rname+"]"] = svar{typ: en.Obj().Name()}
			tuple := strings.TrimSuffix(strings.Repeat("Z * ", len(structFields[en.Obj().Name()])), " * ")
			sliceParam = "(v_" + rname + " : list (" + tuple + "))"
		} else {
			fail("receiver type %s", rt)
		}
	}
	for _, p := range fd.Type.Params.List {
		if !isInteger(info.TypeOf(p.Type)) {
			fail("parameter of type %s", info.TypeOf(p.Type))
		}
		for _, n := range p.Names {
			params = append(params, "v_"+n.Name)
		}
	}
	resType := "Z"
	if fd.Type.Results == nil && t.slice != "" && t.recv == "" {
		t.mutMode = true
		tuple := strings.TrimSuffix(strings.Repeat("Z * ", len(structFields[t.structs["["+t.slice+"]"].typ])), " * ")
		resType = "list (" + tuple + ")"
	} else if fd.Type.Results == nil || len(fd.Type.Results.List) != 1 {
		fail("result is not one value")
	} else if rt := info.TypeOf(fd.Type.Results.List[0].Type); rt.String() == "error" {
		t.errMode, resType = true, "bool" // the boolean "it returns nil"
	} else if !isInteger(rt) {
		fail("result is not one integer")
	}
	t.resType = resType
	if len(params) == 0 && sliceParam == "" {
		fail("no parameters")
	}
	body := t.stmts(fd.Body.List, "  ")
	sig := sliceParam
	if len(params) > 0 {
		if t.recv != "" {
			sig = "(" + strings.Join(params, " ") + " : Z) " + sliceParam
		} else {
			sig += " (" + strings.Join(params, " ") + " : Z)"
		}
	}
	if t.slice != "" {
		body = "let v_len_" + t.slice + " := Z.of_nat (length v_" + t.slice + ") in\n  " + body
	}
	w.out.WriteString(t.pre.String())
	fmt.Fprintf(w.out, "(** %s, %s *)\nDefinition %s %s : %s :=\n  %s.\n", k, fset.Position(fd.Pos()), coqName(k), strings.TrimSpace(sig), resType, body)
	w.state[k] = 2
	return true
}

func coqName(n string) string { return "go_" + strings.ReplaceAll(n, ".", "_") }

func main() {
	if len(os.Args) != 3 {
		fmt.Fprintln(os.Stderr, "usage: wtgo2coq REPO OUT.v")
		os.Exit(2)
	}
	repo, out := os.Args[1], os.Args[2]
	fset := token.NewFileSet()
	names, _ := filepath.Glob(filepath.Join(repo, "*.go"))
	sort.Strings(names)
	var files []*ast.File
	for _, n := range names {
		if strings.HasSuffix(n, "_test.go") {
			continue
		}
		f, err := parser.ParseFile(fset, n, nil, parser.ParseComments)
		if err != nil {
			fmt.Fprintln(os.Stderr, "wtgo2coq: parse error:", err)
			os.Exit(1)
		}
		if f.Name.Name != "whispertool" {
			continue
		}
		skip := false
		for _, cg := range f.Comments {
			if cg.Pos() < f.Package {
				for _, c := range cg.List {
					if strings.HasPrefix(c.Text, "//go:build") || strings.HasPrefix(c.Text, "// +build") {
						skip = true // files under a build constraint (tools.go, hooks) are not part of the default build
					}
				}
			}
		}
		if !skip {
			files = append(files, f)
		}
	}
	info := &types.Info{Types: map[ast.Expr]types.TypeAndValue{}, Defs: map[*ast.Ident]types.Object{}, Uses: map[*ast.Ident]types.Object{}}
	conf := types.Config{Importer: &fakeImporter{pkgs: map[string]*types.Package{}}, Error: func(error) {}}
	pkg, _ := conf.Check("whispertool", fset, files, info)
	if pkg == nil {
		fmt.Fprintln(os.Stderr, "wtgo2coq: type check produced no package")
		os.Exit(1)
	}
	var b strings.Builder
	b.WriteString("(** GENERATED by harness/cmd/wtgo2coq from the Go sources of /repo's working tree.  Do not edit:\n    it is rewritten by bin/build-model on every run.  Proofs/KernelTie.v proves the hand-written model\n    equal to these definitions. *)\nFrom WT Require Import Base.Wrap.\n\n(** * integer constants of package whispertool (values as the Go compiler computes them) *)\n")
	scope := pkg.Scope()
	for _, n := range scope.Names() {
		c, ok := scope.Lookup(n).(*types.Const)
		if !ok || c.Val().Kind() != constant.Int {
			continue
		}
		fmt.Fprintf(&b, "Definition go_const_%s : Z := %s.\n", n, zlit(c.Val()))
	}
	b.WriteString("\n(** * the integer kernel *)\n")
	// index function declarations
	decls := map[string]*ast.FuncDecl{}
	for _, f := range files {
		for _, d := range f.Decls {
			fd, ok := d.(*ast.FuncDecl)
			if !ok || fd.Body == nil {
				continue
			}
			name := fd.Name.Name
			if fd.Recv != nil && len(fd.Recv.List) == 1 {
				rt := fd.Recv.List[0].Type
				if s, ok := rt.(*ast.StarExpr); ok {
					rt = s.X
				}
				if id, ok := rt.(*ast.Ident); ok {
					name = id.Name + "." + name
				}
			}
			decls[name] = fd
		}
	}
	w := &world{info: info, fset: fset, decls: decls, state: map[string]int{}, why: map[string]string{}, out: &b}
	for _, k := range kernel {
		if decls[k] == nil {
			fmt.Fprintf(&b, "(* %s: not found in the source *)\n", k)
			continue
		}
		if !w.ensure(k) {
			fmt.Fprintf(&b, "(* %s: outside the translated subset: %s *)\n", k, w.why[k])
		}
	}
	if err := os.WriteFile(out, []byte(b.String()), 0o644); err != nil {
		fmt.Fprintln(os.Stderr, err)
		os.Exit(1)
	}
}
