module verifharness

go 1.14

require (
	github.com/go-graphite/go-whisper v0.0.0-20230221134257-6774e38a461b
	github.com/hnakamur/whispertool v0.0.0
)

replace github.com/hnakamur/whispertool => /repo
