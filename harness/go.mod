module verifharness

go 1.14

require github.com/hnakamur/whispertool v0.0.0

replace github.com/hnakamur/whispertool => /repo
