"""Shared helpers of the case generators: one PRNG state per run, layouts, clocks, values."""
import random, struct

def fbits(x):
    return struct.unpack('>Q', struct.pack('>d', x))[0]

def f32bits(x):
    return struct.unpack('>I', struct.pack('>f', x))[0]


NAN = 0x7ff8000000000001
SPECIAL_VALUES = [0x0000000000000000, 0x8000000000000000, 0x7ff0000000000000, 0xfff0000000000000,
                  0x0000000000000001, fbits(0.1), fbits(1e300), fbits(-2.5), fbits(123456.789012345678)]
# doubles that are exactly float32 numbers (their shortest float32 decimal is shorter than their
# shortest float64 decimal) and large integers with few significant bits
def _f32d(x):
    return fbits(struct.unpack('>f', struct.pack('>f', x))[0])
F32_VALUES = [_f32d(0.1), _f32d(98.6), _f32d(-0.3), _f32d(1e10), _f32d(3.4e38), _f32d(1.17e-38), fbits(2.0 ** 31), fbits(2.0 ** 32), fbits(2.0 ** 40),
              fbits(-(2.0 ** 63)), fbits(2.0 ** 24 + 2), fbits(16777217.0), fbits(2.0 ** 53), fbits(2.0 ** 53 + 2), fbits(1e21), fbits(1e22), fbits(1e23), fbits(5e-324)]
NAN_VALUES = [0x7ff8000000000001, 0x7ff0000000000001, 0xfff8000000000000, 0x7fffffffffffffff]

# float32 bit patterns of valid xFilesFactors, boundary first
XFF_VALID = [0x00000000, 0x80000000, 0x00000001, 0x3e800000, 0x3eaaaaaa, 0x3eaaaaab, 0x3f000000,
             0x3f7fffff, 0x3f800000]

METHODS = [1, 2, 3, 4, 5, 6]          # average sum last max min first
METHOD_NAMES = {1: 'average', 2: 'sum', 3: 'last', 4: 'max', 5: 'min', 6: 'first'}

TMAX = 2 ** 31


class Rng(random.Random):
    """random.Random with a few convenience pickers; all choices of a run come from one state."""
    def pick(self, seq):
        return seq[self.randrange(len(seq))]

    def chance(self, p):
        return self.random() < p


def small_value(rnd):
    return fbits(float(rnd.randint(-10, 10)))


def value(rnd, nan_ok=True):
    r = rnd.random()
    if r < 0.65:
        return small_value(rnd)
    if r < 0.77:
        return rnd.pick(SPECIAL_VALUES)
    if r < 0.8:
        return rnd.pick(F32_VALUES)
    if r < 0.86 and nan_ok:
        return rnd.pick(NAN_VALUES)
    if r < 0.93:
        return fbits(rnd.uniform(-1e6, 1e6))
    while True:
        b = rnd.getrandbits(64)
        if nan_ok or not is_nan_bits(b):
            return b


def is_nan_bits(b):
    return (b >> 52) & 0x7ff == 0x7ff and (b & ((1 << 52) - 1)) != 0


FIXED_LAYOUTS = {
    'ring1': [(1, 1)],
    'ring1b': [(5, 2), (10, 2)],
    'ring2': [(2, 2), (4, 3)],
    'ring2c': [(1, 2), (2, 3)],
    'ratioN': [(1, 4), (4, 8)],            # ratio equal to the finer point count
    'barely': [(60, 5), (300, 2)],         # coarser ring barely longer than the finer one
    'barely3': [(1, 6), (2, 4), (4, 3)],
    'short2': [(1, 7), (2, 4)],             # coarser retention LESS than one coarser step longer than the finer one
    'short3': [(1, 10), (4, 3), (12, 10)],
    'short3b': [(2, 5), (6, 2), (12, 4)],
    'ratio512': [(1, 512), (512, 2)],       # more finer points per coarser slot than fit one 4 KiB page; tiny coarser archive
    'ratio600': [(1, 600), (600, 3)],
    'three': [(1, 8), (4, 8), (16, 4)],
    'four': [(3, 2), (6, 3), (18, 2), (36, 4)],
    'single5': [(1, 5)],
    'multipage': [(1, 400), (100, 400)],    # 4800-byte archives: slots straddle 4 KiB pages
    'multipage3': [(10, 700), (60, 500), (600, 400)],
    'tens': [(10, 10), (20, 20), (100, 100)],
    'cli': [(60, 10), (300, 10)],
}


def random_layout(rnd, levels=None, max_points=40):
    """A valid layout built bottom-up from a divisor chain."""
    k = levels or rnd.pick([1, 2, 2, 3, 3, 4])
    s = rnd.pick([1, 1, 2, 3, 5, 10, 60])
    n = rnd.randint(1, max_points)
    out = [(s, n)]
    for _ in range(k - 1):
        ps, pn = out[-1]
        rmax = min(pn, 6)
        if rmax < 2:
            break
        r = rnd.randint(2, rmax)
        s2 = ps * r
        nmin = (ps * pn) // s2 + 1
        n2 = nmin + rnd.pick([0, 0, 1, 2, rnd.randint(0, max_points)])
        out.append((s2, n2))
    return out


def pick_layout(rnd, names=None, random_share=0.4, **kw):
    if rnd.chance(random_share):
        return 'random', random_layout(rnd, **kw)
    name = rnd.pick(names or list(FIXED_LAYOUTS))
    return name, list(FIXED_LAYOUTS[name])


def retentions(layout):
    return [s * n for s, n in layout]


LATE_CLOCKS = True


def clock_in_domain(rnd, layout):
    """A clock value with 2*maxRet <= now and now + 2*maxRet < 2^31 (domain D)."""
    R = retentions(layout)[-1]
    lo, hi = 2 * R, TMAX - 2 * R - 1
    if LATE_CLOCKS and rnd.chance(0.12):
        # beyond the domain of the theorems (2038-2106): Timestamp is a uint32, differences of times
        # that lie within one retention of each other still fit an int32; the model mirrors the wraps
        lo2, hi2 = TMAX, 2 ** 32 - 4 * R - 64
        return rnd.pick([lo2 + rnd.randint(0, 50), hi2 - rnd.randint(0, 50), rnd.randint(lo2, hi2), 2400000000 + rnd.randint(0, 10 ** 8)])
    r = rnd.random()
    if r < 0.5:
        return min(max(1600000000 + rnd.randint(0, 200000000), lo), hi)
    if r < 0.75:
        return lo + rnd.randint(0, 50)
    if r < 0.9:
        return hi - rnd.randint(0, 50) - 4 * R      # leaves room for clock advances
    return rnd.randint(lo, hi)


def advance(rnd, now, layout, room=None):
    R = retentions(layout)[-1]
    S0 = layout[0][0]
    r = rnd.random()
    if r < 0.35:
        d = 0
    elif r < 0.55:
        d = rnd.randint(0, max(S0 - 1, 1))
    elif r < 0.7:
        d = rnd.pick([s for s, _ in layout])
    elif r < 0.85:
        d = rnd.randint(1, 6) * rnd.pick([s for s, _ in layout])
    elif r < 0.95:
        d = rnd.pick(retentions(layout)) + rnd.randint(-1, 1)
    else:
        d = rnd.randint(R, 2 * R)
    hi = TMAX - 2 * R - 1 if now < TMAX else 2 ** 32 - 3 * R - 64      # a late clock stays late (and below 2^32)
    return min(now + max(d, 0), hi)


def boundary_age(rnd, layout):
    """Ages on and next to every retention/step boundary, else uniform."""
    rets = retentions(layout)
    r = rnd.random()
    if r < 0.35:
        return rnd.pick(rets) + rnd.randint(-1, 1)
    if r < 0.5:
        s = rnd.pick([s for s, _ in layout])
        return rnd.pick([0, 1, s - 1, s, s + 1])
    return rnd.randint(0, rets[-1] + 3)


def windows(rnd, layout, a, now, count=3):
    """Fetch windows for archive a (may be out of range): full, degenerate, sub-step,
    crossing now, crossing now-R, random, from=0, reversed."""
    k = len(layout)
    if 0 <= a < k:
        S, N = layout[a]
    else:
        S, N = layout[-1]
    R = S * N
    cands = [
        (now - R, now), (now - R, now - R), (now - R - S, now + S), (0, now),
        (now + 1, now + 5), (now - rnd.randint(0, R + 3), None), (now - R + rnd.randint(0, S), None),
        (now, now), (now - S, now), (now - R - 2 * S, now - R - S), (now - R - 1, now - R + 1),
    ]
    out = []
    for fr, un in rnd.sample(cands, min(count, len(cands))):
        if un is None:
            un = fr + rnd.pick([0, 0, 1, S - 1, S, S + 1, rnd.randint(0, R + 3)])
        fr, un = max(fr, 0), max(un, 0)
        if rnd.chance(0.04):
            fr, un = un + 1, fr
        out.append((min(fr, 2 ** 32 - 1), min(un, 2 ** 32 - 1)))        # Timestamp is a uint32
    return out


def fmt_layout(layout):
    return "%d %s" % (len(layout), " ".join("%d %d" % sn for sn in layout))


def retention_string(layout):
    return ",".join("%ds:%ds" % (s, s * n) for s, n in layout)
