"""Case generators for the commands (C08-C12, C16, C18, C20).  The commands read the wall
clock themselves, so times are written relative to the clock at the start of the case ("@-5");
the driver resolves them and reports the clock each command printed."""
import re
from common import *

CLI_LAYOUTS = {
    'two_1s': [(1, 40), (5, 24)],
    'two_2s': [(2, 30), (10, 30)],
    'three_1s': [(1, 60), (5, 60), (20, 60)],
    'three_2s': [(2, 30), (6, 40), (60, 20)],
    'single': [(1, 50)],
    'minute': [(60, 10), (300, 10)],
    'big': [(1, 400), (10, 200)],
    'four': [(1, 8), (2, 16), (4, 16), (16, 16)],
}


def lay_csv(layout):
    return ','.join([str(len(layout))] + ['%d,%d' % sn for sn in layout])


def cvalue(rnd, nan_ok=True):
    r = rnd.random()
    if r < 0.6:
        return fbits(float(rnd.randint(0, 50)))
    if r < 0.7 and nan_ok:
        return NAN
    if r < 0.74:
        return rnd.pick(F32_VALUES)
    if r < 0.8:
        return rnd.pick([0x0000000000000000, 0x8000000000000000, 0x7ff0000000000000, 0xfff0000000000000, 0x7ff0000000000000, fbits(0.1),
                         fbits(123456.789012345678), fbits(1e16), fbits(-1e16), 0x3ff0000000000001, fbits(1 / 3), fbits(1.7e308), fbits(-1.7e308)])
    return fbits(round(rnd.uniform(-1000, 1000), 3))


def fill_ops(rnd, name, layout, m, xff, density=0.6, inconsistent=True, only=None, tag=None):
    """create + per-archive batches (finest first, so direct writes to coarser archives are not
    overwritten by propagation) + sync + drop.  Returns (lines, content description)."""
    lines = ["create %s %s m %d x %08x" % (name, fmt_layout(layout), m, xff)]
    for a, (S, N) in enumerate(layout):
        if only is not None and a not in only:
            continue
        if a > 0 and not inconsistent:
            continue
        pts = []
        for k in range(N):
            if rnd.chance(density):
                pts.append(("@-%d" % (k * S), cvalue(rnd)))
        if pts:
            lines.append("many %s %d @ %d %s" % (name, a, len(pts), " ".join("%s %016x" % tv for tv in pts)))
    lines += ["sync %s" % name, "drop %s" % name]
    return lines


def cascade_pair(rnd, sname, dname, layout, m, xff):
    """Source: a dense finest archive (so every coarser slot is the aggregate of the finer ones) and
    explicit, inconsistent values in the COARSEST archive only.  Destination: the same, except for a
    few values of the finest archive.  Copying the finest difference propagates through the middle
    archive (which then needs no write) into the coarsest one, whose slots matched the source before."""
    k = len(layout)
    src = fill_ops(rnd, sname, layout, m, xff, density=1.0, only=[0, k - 1])
    dst = copy_of(src, sname, dname)
    for i, l in enumerate(dst):
        tk = l.split()
        if tk[0] == 'many' and tk[2] == '0':
            npts = int(tk[4])
            for _ in range(rnd.randint(1, 3)):
                j = rnd.randrange(npts)
                tk[5 + 2 * j + 1] = '%016x' % fbits(float(rnd.randint(60, 90)))
            dst[i] = ' '.join(tk)
            break
    return src, dst


def copy_of(lines, old, new):
    """the same operations on another file name"""
    out = []
    for l in lines:
        tk = l.split()
        tk[1] = new if tk[1] == old else tk[1]
        out.append(" ".join(tk))
    return out


def window(rnd, layout):
    """(from, until) tokens: default, narrow, in the past, beyond the finest retention, degenerate"""
    R = retentions(layout)
    kind = rnd.pick(['default', 'default', 'narrow', 'past', 'beyond_fine', 'degenerate', 'until_only', 'future'])
    if kind == 'default':
        return kind, '0', '0'
    if kind == 'narrow':
        a = rnd.randint(1, R[0] - 1)
        return kind, '@-%d' % a, '@-%d' % rnd.randint(0, a)
    if kind == 'past':
        a = rnd.randint(R[0] // 2, R[-1])
        return kind, '@-%d' % a, '@-%d' % max(a - rnd.randint(0, R[0]), 0)
    if kind == 'beyond_fine':
        a = R[0] + rnd.randint(1, max(R[-1] - R[0], 2))
        return kind, '@-%d' % (a + rnd.randint(0, 20)), '@-%d' % a
    if kind == 'degenerate':
        a = rnd.randint(0, R[-1])
        return kind, '@-%d' % a, '@-%d' % a
    if kind == 'until_only':
        return kind, '0', '@-%d' % rnd.randint(0, R[0])
    return kind, '@+%d' % rnd.randint(2, 9), '@+%d' % rnd.randint(10, 20)


def observe_all(lines, name, layout, frm='0', until='@+2', now='@+2'):
    for a in range(len(layout)):
        lines.append("dfetch %s %d %s %s %s" % (name, a, '@-%d' % (layout[a][0] * layout[a][1]), until, now))


def gen_c08(rnd, n, thorough=False):
    cases = []
    for c in range(n):
        lname = rnd.pick(list(CLI_LAYOUTS))
        layout = CLI_LAYOUTS[lname]
        k = len(layout)
        m, xff = rnd.pick(METHODS), rnd.pick([0x00000000, 0x3f000000, 0x3f800000, 0x3e800000])
        lines = fill_ops(rnd, 's/a.wsp', layout, m, xff, density=rnd.pick([0.2, 0.6, 1.0]), inconsistent=rnd.chance(0.7))
        destkind = rnd.pick(['missing', 'fresh', 'filled', 'partly_equal', 'equal', 'mismatch', 'coarse_equal', 'cascade', 'superset'])
        if destkind == 'cascade':
            lname = rnd.pick(['three_1s', 'three_2s', 'four'])
            layout = CLI_LAYOUTS[lname]
            k = len(layout)
            lines, cdst = cascade_pair(rnd, 's/a.wsp', 'd/a.wsp', layout, m, xff)
            lines += cdst
        src_fill = [l for l in lines]
        if destkind == 'fresh':
            lines += ["create d/a.wsp %s m %d x %08x" % (fmt_layout(layout), m, xff), "sync d/a.wsp", "drop d/a.wsp"]
        elif destkind == 'filled':
            lines += fill_ops(rnd, 'd/a.wsp', layout, m, xff, density=rnd.pick([0.3, 0.8]), inconsistent=True)
        elif destkind == 'superset':
            # the destination holds everything the source holds and values where the source has none:
            # nothing of the source is new, yet with NaN copying the surplus has to go
            cp = copy_of(src_fill, 's/a.wsp', 'd/a.wsp')
            extra_lines = []
            for a_, (S_, N_) in enumerate(layout):
                ex = [("@-%d" % (j_ * S_), fbits(float(rnd.randint(60, 99)))) for j_ in range(N_) if rnd.chance(0.15)]
                if ex:
                    extra_lines.append("many d/a.wsp %d @ %d %s" % (a_, len(ex), " ".join("%s %016x" % tv for tv in ex)))
            # surplus first, then the source's own batches on top (so that every source value is there)
            lines += [cp[0]] + extra_lines + cp[1:]
        elif destkind in ('partly_equal', 'equal', 'coarse_equal'):
            cp = copy_of(src_fill, 's/a.wsp', 'd/a.wsp')
            if destkind == 'partly_equal':
                S0, N0 = layout[0]
                extra = [("@-%d" % (rnd.randrange(N0) * S0), cvalue(rnd)) for _ in range(rnd.randint(1, 4))]
                cp = cp[:-2] + ["many d/a.wsp %d @ %d %s" % (rnd.randrange(k), len(extra), " ".join("%s %016x" % tv for tv in extra))] + cp[-2:]
            if destkind == 'coarse_equal' and k >= 2:
                # equal coarser archives, different finest archive: the copy's own propagation must not
                # leave the coarser archives different from the source (finding F5)
                S0, N0 = layout[0]
                extra = [("@-%d" % (j * S0), cvalue(rnd, False)) for j in range(N0) if rnd.chance(0.5)]
                coarse = [l for l in cp if l.startswith('many') and l.split()[2] != '0']
                cp = [cp[0]] + ["many d/a.wsp 0 @ %d %s" % (len(extra), " ".join("%s %016x" % tv for tv in extra))] * (1 if extra else 0) + coarse + cp[-2:]
            lines += cp
        elif destkind == 'mismatch':
            other = rnd.pick([[(s, nn + 1) for s, nn in layout], [(s * 2, nn) for s, nn in layout], layout[:-1] or [(7, 7)]])
            lines += fill_ops(rnd, 'd/a.wsp', other, m, xff, density=0.3, inconsistent=False)
        wk, frm, until = window(rnd, layout)
        arch = rnd.pick([-1, -1, -1] + list(range(k)) + [k, -2])
        if destkind not in ('cascade', 'mismatch') and rnd.chance(0.2):
            # the source was written by a clock a little ahead of the copier's: it holds points stamped with the
            # slot after the current one; a window inside the current slot of an archive compares exactly that slot
            extra_src = []
            for a_, (S_, N_) in enumerate(layout):
                if rnd.chance(0.7):
                    extra_src.append("many s/a.wsp %d @+%d 1 @+%d %016x" % (a_, S_, S_, fbits(float(40 + a_))))
            if extra_src:
                lines = lines + ["open s/a.wsp"] + extra_src + ["sync s/a.wsp", "drop s/a.wsp"]
                if rnd.chance(0.7):
                    wk, frm, until = 'current_slot', '@-1', rnd.pick(['0', '@'])
        if destkind == 'cascade':
            wk, frm, until, arch = 'default', '0', '0', -1
        copynan = rnd.pick([0, 1])
        if destkind == 'superset':
            copynan = 1 if rnd.chance(0.8) else 0
        sname, rem = 'a.wsp', ''
        if rnd.chance(0.2):
            # the source is read through a server, under a name with characters that are special in a query string
            sname, rem = rnd.pick(['cpu+io.wsp', 'rx&tx.wsp', 'q=1.wsp', 'p%41.wsp', 'c++.wsp', 'a.wsp']), ' remote=1'
            lines = [l.replace(' s/a.wsp', ' s/' + sname) for l in lines]
        opt = "src=s:%s dest=d:a.wsp from=%s until=%s archive=%d copynan=%d m=%d x=%08x layout=%s%s" % (sname, frm, until, arch, copynan, m, xff, lay_csv(layout), rem)
        lines += ["snap s/%s" % sname, "snap d/a.wsp", "clicopy " + opt, "disk s/%s" % sname, "disk d/a.wsp"]
        observe_all(lines, 'd/a.wsp', layout)
        lines += ["snap d/a.wsp", "clicopy " + opt, "disk d/a.wsp", "clidiff src=s:%s dest=d:a.wsp from=%s until=%s archive=%d" % (sname, frm, until, arch)]
        tags = {'layout': lname, 'dest': destkind, 'window': wk, 'archive': 'all' if arch == -1 else ('bad' if arch < 0 or arch >= k else 'one'), 'copynan': copynan}
        cases.append({'id': 'c08-%d' % c, 'lines': lines, 'tags': tags})
        if c % 7 == 3:
            # -retentions names less than the existing files retain (it only describes a destination that has to be
            # created): everything the window covers is copied all the same
            big = CLI_LAYOUTS[rnd.pick(['two_1s', 'three_2s', 'three_1s'])]
            rl = fill_ops(rnd, 's/a.wsp', big, m, xff, density=0.8, inconsistent=True)
            rl += ["create d/a.wsp %s m %d x %08x" % (fmt_layout(big), m, xff), "sync d/a.wsp", "drop d/a.wsp"]
            short = rnd.pick([[big[0]], [(big[0][0], max(big[0][1] // 4, 2))], [(s_, max(nn // 3, 2)) for s_, nn in big]])
            rl += ["clicopy src=s:a.wsp dest=d:a.wsp from=0 until=0 archive=-1 copynan=0 m=%d x=%08x layout=%s" % (m, xff, lay_csv(short))]
            observe_all(rl, 'd/a.wsp', big)
            rl += ["clidiff src=s:a.wsp dest=d:a.wsp from=0 until=0 archive=-1"]
            cases.append({'id': 'c08-%d-shortopt' % c, 'lines': rl, 'tags': {'layout': lname, 'dest': 'retentions_option_shorter', 'window': 'default', 'archive': 'all', 'copynan': 0}})
        if c % 9 == 4:
            # a destination the user may read but not write, differing from the source: nothing can be copied, so the
            # copy reports an error (never success without the work done), and the file is as it was
            rl = fill_ops(rnd, 's/a.wsp', layout, m, xff, density=1.0, inconsistent=False)
            rl += ["create d/a.wsp %s m %d x %08x" % (fmt_layout(layout), m, xff), "sync d/a.wsp", "drop d/a.wsp", "snap d/a.wsp",
                   "clicopy src=s:a.wsp dest=d:a.wsp from=0 until=0 archive=-1 copynan=%d m=%d x=%08x layout=%s textout=discard ro=d/a.wsp" % (rnd.pick([0, 1]), m, xff, lay_csv(layout)),
                   "disk d/a.wsp"]
            observe_all(rl, 'd/a.wsp', layout)
            rl += ["clidiff src=s:a.wsp dest=d:a.wsp from=0 until=0 archive=-1"]
            cases.append({'id': 'c08-%d-readonly' % c, 'lines': rl, 'tags': {'layout': lname, 'dest': 'unwritable', 'window': 'default', 'archive': 'all', 'copynan': 0}})
        if rnd.chance(0.15):
            # glob mode: every matched file goes to the same relative path under the destination base
            gl = []
            names = ['g/x/a.wsp', 'g/y/a.wsp', 'g/y/b.wsp']
            for nm in names:
                gl += fill_ops(rnd, nm, layout, m, xff, density=0.4, inconsistent=False)
            r_ = rnd.random()
            if r_ < 0.35:
                gl += fill_ops(rnd, 'h/y/a.wsp', layout, m, xff, density=0.4, inconsistent=False)
            elif r_ < 0.7:
                # a destination that exists with another layout, for a matched file that is not the last:
                # the run fails there (and the later files are not touched)
                gl += fill_ops(rnd, rnd.pick(['h/x/a.wsp', 'h/y/a.wsp']), [(s_, nn + 1) for s_, nn in layout], m, xff, density=0.3, inconsistent=False)
            if rnd.chance(0.5):
                # one matched name is a symbolic link to a whisper file elsewhere: it is a matched source file
                gl += fill_ops(rnd, 'other/t.wsp', layout, m, xff, density=0.4, inconsistent=False)
                gl.append("symlink other/t.wsp g/y/l.wsp")
                names = names + ['g/y/l.wsp']
            pat = rnd.pick(['*/a.wsp', '*/*.wsp', 'y/?.wsp', 'z/*.wsp', '[xy]/a.wsp', 'y/[.wsp'])
            gl += ["clicopy src=g:%s dest=h: from=0 until=0 archive=-1 copynan=%d m=%d x=%08x layout=%s spell=%d" % (pat, copynan, m, xff, lay_csv(layout), rnd.pick([0, 1, 2, 3, 4]))]
            for nm in names:
                observe_all(gl, 'h/' + nm[2:], layout)
            cases.append({'id': 'c08-%d-glob' % c, 'lines': gl, 'tags': {'layout': lname, 'dest': 'glob', 'window': 'default'}})
        if c == 2:
            # glob mode over a source that is being written: while the first matched file is copied (its
            # destination is kept locked for two clock seconds) a later matched file receives a point;
            # the default window of that later file ends at ITS clock, so the point is copied
            l2 = CLI_LAYOUTS[rnd.pick(['two_1s', 'three_1s', 'single'])]
            gl = []
            for nm in ('g/y/a.wsp', 'g/y/b.wsp', 'h/y/a.wsp'):
                gl += fill_ops(rnd, nm, l2, m, xff, density=0.4, inconsistent=False)
            if rnd.chance(0.5):
                gl += fill_ops(rnd, 'h/y/b.wsp', l2, m, xff, density=0.4, inconsistent=False)
            gl += ["clicopy src=g:y/*.wsp dest=h: from=0 until=0 archive=-1 copynan=%d m=%d x=%08x layout=%s live=g/y/b.wsp hold=h/y/a.wsp" % (copynan, m, xff, lay_csv(l2))]
            observe_all(gl, 'h/y/b.wsp', l2, until='@+9', now='@+9')
            gl.append("clidiff src=g:y/*.wsp dest=h: from=0 until=0 archive=-1")
            cases.append({'id': 'c08-%d-live' % c, 'lines': gl, 'tags': {'layout': 'live', 'dest': 'glob_live_source', 'window': 'default'}})
    # a copy that has to write one run of several thousand consecutive slots (a densely filled source, a destination
    # that does not exist or holds nothing): every slot of the window, and a clean diff afterwards
    N_ = 6000 if not thorough else 12000
    ll = ["create s/long.wsp 1 1 %d m 2 x 00000000" % N_,
          "many s/long.wsp 0 @ %d %s" % (N_ - 20, " ".join("@-%d %016x" % (q, fbits(float(q % 977) + 0.5)) for q in range(N_ - 20))),
          "sync s/long.wsp", "drop s/long.wsp"]
    if rnd.chance(0.5):
        ll += ["create d/long.wsp 1 1 %d m 2 x 00000000" % N_, "sync d/long.wsp", "drop d/long.wsp"]
    ll += ["clicopy src=s:long.wsp dest=d:long.wsp from=0 until=0 archive=-1 copynan=0 m=2 x=00000000 layout=%s" % lay_csv([(1, N_)]),
           "clidiff src=s:long.wsp dest=d:long.wsp from=0 until=0 archive=-1"]
    observe_all(ll, 'd/long.wsp', [(1, N_)])
    cases.append({'id': 'c08-longrun', 'lines': ll, 'tags': {'layout': 'long%d' % N_, 'dest': 'missing_or_fresh', 'window': 'default'}})
    return cases


def gen_c09(rnd, n, thorough=False):
    cases = []
    for c in range(n):
        lname = rnd.pick(list(CLI_LAYOUTS))
        layout = CLI_LAYOUTS[lname]
        k = len(layout)
        m, xff = rnd.pick(METHODS), 0x3f000000
        src = fill_ops(rnd, 's/a.wsp', layout, m, xff, density=rnd.pick([0.3, 0.8]))
        kind = rnd.pick(['same', 'copy', 'few_differ', 'few_differ', 'nan_vs_value', 'zero_signs', 'last_bit', 'missing_src', 'missing_dest',
                         'missing_both', 'layout_points', 'layout_steps', 'unsynced_dest'])
        lines = list(src)
        dest = 'd/a.wsp'
        if kind == 'same':
            dest = 's/a.wsp'
        elif kind in ('copy', 'few_differ', 'nan_vs_value', 'zero_signs', 'last_bit'):
            cp = copy_of(src, 's/a.wsp', dest)
            a = rnd.randrange(k)
            S, N = layout[a]
            slot = "@-%d" % (rnd.randrange(N) * S)
            extra_s, extra_d = [], []
            if kind == 'few_differ':
                extra_d = [("@-%d" % (rnd.randrange(N) * S), cvalue(rnd)) for _ in range(rnd.randint(1, 3))]
            elif kind == 'nan_vs_value':
                extra_s, extra_d = [(slot, NAN)], [(slot, fbits(5.0))]
            elif kind == 'zero_signs':
                extra_s, extra_d = [(slot, 0)], [(slot, 0x8000000000000000)]
            elif kind == 'last_bit':
                extra_s, extra_d = [(slot, 0x3ff0000000000000)], [(slot, 0x3ff0000000000001)]
            if extra_s:
                lines = lines[:-2] + ["many s/a.wsp %d @ %d %s" % (a, len(extra_s), " ".join("%s %016x" % tv for tv in extra_s))] + lines[-2:]
            if extra_d:
                cp = cp[:-2] + ["many %s %d @ %d %s" % (dest, a, len(extra_d), " ".join("%s %016x" % tv for tv in extra_d))] + cp[-2:]
            lines += cp
        elif kind == 'missing_src':
            lines = copy_of(src, 's/a.wsp', dest)
        elif kind == 'missing_both':
            lines = []
        elif kind == 'layout_points':
            lines += fill_ops(rnd, dest, [(s, nn + 5) for s, nn in layout], m, xff, density=0.5)
        elif kind == 'layout_steps':
            lines += fill_ops(rnd, dest, [(s * 2, nn) for s, nn in layout], m, xff, density=0.5)
        elif kind == 'unsynced_dest':
            lines += ["create %s %s m %d x %08x" % (dest, fmt_layout(layout), m, xff), "drop %s" % dest]
        wk, frm, until = window(rnd, layout)
        if kind in ('layout_points',) and rnd.chance(0.6):
            wk, frm, until = 'narrow', '@-%d' % rnd.randint(2, layout[0][0] * layout[0][1] - 1), '0'   # inside every retention
        if kind in ('copy', 'few_differ') and rnd.chance(0.35):
            # one side was written by a clock a little ahead of the comparing one: it holds points stamped with slots that
            # lie after the clock (they overlay the oldest slots of the ring); the window's oldest slots are then empty
            # on that side, whatever the ring holds there physically
            who = rnd.pick(['s/a.wsp', dest])
            ahead = []
            for a_, (S_, N_) in enumerate(layout):
                if rnd.chance(0.7):
                    q_ = rnd.randint(1, 3)
                    ahead.append("many %s %d @+%d %d %s" % (who, a_, q_ * S_, q_, " ".join("@+%d %016x" % (j_ * S_, fbits(float(70 + a_ + j_))) for j_ in range(1, q_ + 1))))
            if ahead:
                lines = lines + ["open %s" % who] + ahead + ["sync %s" % who, "drop %s" % who]
                wk, frm, until = 'default', '0', '0'
        arch = rnd.pick([-1, -1, -1] + list(range(k)) + [k])
        if kind.startswith('missing'):
            # a missing side together with another failure of the other side is reported as whichever
            # concurrent read fails first: not determined, not generated
            arch = rnd.pick([-1] + list(range(k)))
        db, dr = dest.split('/', 1)
        # either side may be the URL of a server serving the same directory (the verdict is the same)
        side = rnd.pick(['local', 'local', 'remote_src', 'remote_dest'])
        if kind in ('missing_both', 'unsynced_dest'):
            side = 'local'
        sname = 'a.wsp'
        if side != 'local' and kind != 'same' and rnd.chance(0.5):
            # names with characters that are special in a query string
            sname = rnd.pick(['cpu+io.wsp', 'rx&tx.wsp', 'q=1.wsp', 'p%41.wsp'])
            lines = [l.replace(' s/a.wsp', ' s/' + sname) for l in lines]
        r1 = {'local': '', 'remote_src': ' remote=1', 'remote_dest': ' remotedest=1'}[side]
        r2 = {'local': '', 'remote_src': ' remotedest=1', 'remote_dest': ' remote=1'}[side]
        if db == 's':
            dr = sname
        lines.append("clidiff src=s:%s dest=%s:%s from=%s until=%s archive=%d%s" % (sname, db, dr, frm, until, arch, r1))
        lines.append("clidiff src=%s:%s dest=s:%s from=%s until=%s archive=%d%s" % (db, dr, sname, frm, until, arch, r2))   # symmetric verdict
        if side == 'local' and rnd.chance(0.35):
            # the same comparison by the program itself (cmd/whispertool/main.go): flags, dispatch, exit status
            wf, wu = (frm, until) if (frm == '0') == (until == '0') else ('0', '0')
            if wf != '0' and wu != '0' and wf.startswith('@+'):
                wf, wu = '0', '0'
            lines.append("cliexit src=s:%s dest=%s:%s from=%s until=%s archive=%d" % (sname, db, dr, wf, wu, arch))
        # the library's comparison API on two series: equal copies, single differing values, holes on one
        # side, NaNs with different payloads, zeros of both signs, shifted ranges, different lengths
        for _ in range(3):
            nvals = rnd.randint(0, 6)
            f0 = rnd.pick([1700000000, 2 ** 32 - 8, 60])
            st = rnd.pick([1, 60, 7])
            va = [cvalue(rnd) for _ in range(nvals)]
            vb = list(va)
            for _j in range(rnd.pick([0, 0, 1, 2])):
                if vb:
                    vb[rnd.randrange(len(vb))] = rnd.pick([NAN, 0x7ff8000000000002, 0, 0x8000000000000000, cvalue(rnd), fbits(1.0), 0x3ff0000000000001])
            if rnd.chance(0.15):
                vb = vb[:-1] if vb and rnd.chance(0.5) else vb + [cvalue(rnd)]
            f1, u1, s1 = f0, (f0 + st * nvals) % 2 ** 32, st
            r = rnd.random()
            if r < 0.1: f1 = (f0 + st) % 2 ** 32
            elif r < 0.2: u1 = (u1 + st) % 2 ** 32
            elif r < 0.3: s1 = st * 2
            ser = lambda f, u, s_, vs: "%d %d %d %d %s" % (f, u, s_, len(vs), " ".join("%016x" % v for v in vs))
            lines.append(("tsapi %s | %s" % (ser(f0, (f0 + st * nvals) % 2 ** 32, st, va), ser(f1, u1, s1, vb))).replace("  ", " ").strip())
        cases.append({'id': 'c09-%d' % c, 'lines': lines, 'tags': {'layout': lname, 'pair': kind, 'window': wk, 'side': side}})
        if rnd.chance(0.2):
            gl = []
            names = ['x/a.wsp', 'y/a.wsp', 'y/b.wsp']
            differing = rnd.sample(names, rnd.randint(0, 2))
            missing = rnd.sample(names, rnd.pick([0, 0, 1]))
            for nm in names:
                f = fill_ops(rnd, 'g/' + nm, layout, m, xff, density=0.5, inconsistent=False)
                gl += f
                if nm in missing:
                    continue
                cp = copy_of(f, 'g/' + nm, 'h/' + nm)
                if nm in differing:
                    cp = cp[:-2] + ["many h/%s 0 @ 1 @-%d %016x" % (nm, layout[0][0], fbits(777.0))] + cp[-2:]
                gl += cp
            if rnd.chance(0.4):
                # the last matched pair cannot be compared (unequal layouts) after earlier ones differ or are
                # clean: the run ends with the error, not with "difference found"
                gl = [l_ for l_ in gl if ' h/y/b.wsp' not in l_]
                gl += fill_ops(rnd, 'h/y/b.wsp', [(s_, nn + 2) for s_, nn in layout], m, xff, density=0.3, inconsistent=False)
            if rnd.chance(0.5):
                # one matched source name is a symbolic link to a whisper file elsewhere: it is a matched file
                # like any other (often the only one whose destination differs or is missing)
                f = fill_ops(rnd, 'other/t.wsp', layout, m, xff, density=0.5, inconsistent=False)
                gl += f + ["symlink other/t.wsp g/y/l.wsp"]
                r_ = rnd.random()
                if r_ < 0.7:
                    cp = copy_of(f, 'other/t.wsp', 'h/y/l.wsp')
                    if r_ < 0.45:
                        cp = cp[:-2] + ["many h/y/l.wsp 0 @ 1 @-%d %016x" % (layout[0][0], fbits(778.0))] + cp[-2:]
                    gl += cp
            pat = rnd.pick(['*/*.wsp', '*/a.wsp', 'q/*.wsp', '[xy]/*.wsp', 'x/[.wsp', 'y/*.wsp'])
            gl.append("clidiff src=g:%s dest=h: from=0 until=0 archive=-1 spell=%d" % (pat, rnd.pick([0, 1, 2, 3, 4])))
            cases.append({'id': 'c09-%d-glob' % c, 'lines': gl, 'tags': {'layout': lname, 'pair': 'glob', 'window': 'default'}})
        if c == 3:
            # a glob run over files that are being written: while the first pair is compared (its
            # destination is kept locked for two clock seconds) the destination of a later pair receives a
            # point; the default window of that later pair ends at ITS clock, so the new slot is compared
            l2 = CLI_LAYOUTS[rnd.pick(['two_1s', 'three_1s', 'single'])]
            gl = []
            for nm in ('y/a.wsp', 'y/b.wsp'):
                f = fill_ops(rnd, 'g/' + nm, l2, m, xff, density=0.5, inconsistent=False)
                gl += f + copy_of(f, 'g/' + nm, 'h/' + nm)
            side = rnd.pick(['g', 'h'])
            gl.append("clidiff src=g:y/*.wsp dest=h: from=0 until=0 archive=-1 live=%s/y/b.wsp hold=h/y/a.wsp" % side)
            gl.append("clidiff src=g:y/*.wsp dest=h: from=0 until=0 archive=-1")
            cases.append({'id': 'c09-%d-live' % c, 'lines': gl, 'tags': {'layout': 'live', 'pair': 'glob_live', 'window': 'default'}})
    # differing slots with -0 on one side (against a number, against an empty slot): the listing shows -0 as -0
    l2 = CLI_LAYOUTS['two_1s']
    S0 = l2[0][0]
    zl = ["create s/z.wsp %s m 2 x 3f000000" % fmt_layout(l2), "many s/z.wsp 0 @ 3 @-%d 8000000000000000 @-%d 8000000000000000 @-%d %016x" % (2 * S0, 4 * S0, 6 * S0, fbits(3.0)), "sync s/z.wsp", "drop s/z.wsp",
          "create d/z.wsp %s m 2 x 3f000000" % fmt_layout(l2), "many d/z.wsp 0 @ 2 @-%d %016x @-%d 8000000000000000" % (2 * S0, fbits(5.0), 6 * S0), "sync d/z.wsp", "drop d/z.wsp",
          "clidiff src=s:z.wsp dest=d:z.wsp from=0 until=0 archive=0", "clidiff src=d:z.wsp dest=s:z.wsp from=0 until=0 archive=-1 remote=1"]
    cases.append({'id': 'c09-negzero', 'lines': zl, 'tags': {'layout': 'two_1s', 'pair': 'negative_zero', 'window': 'default'}})
    # a file compared with itself: clean when it can be read -- and the same error as for any pair when it is missing,
    # is no whisper file, or lacks the selected archive
    l2 = CLI_LAYOUTS['two_1s']
    sl = fill_ops(rnd, 's/a.wsp', l2, 2, 0x3f000000, density=0.6, inconsistent=False) + ["create s/zero.wsp %s m 2 x 3f000000" % fmt_layout(l2), "drop s/zero.wsp"]
    for nm, arch in [('a.wsp', -1), ('none.wsp', -1), ('a.wsp', 7), ('zero.wsp', -1), ('none.wsp', 0)]:
        sl.append("clidiff src=s:%s dest=s:%s from=0 until=0 archive=%d" % (nm, nm, arch))
        sl.append("clidiff src=s:%s dest=s:%s from=0 until=0 archive=%d remote=1" % (nm, nm, arch))
        sl.append("clidiff src=s:%s dest=s: from=0 until=0 archive=%d" % (nm, arch))
    sl.append("clidiff src=s:n*.wsp dest=s: from=0 until=0 archive=-1")
    cases.append({'id': 'c09-self', 'lines': sl, 'tags': {'layout': 'two_1s', 'pair': 'self', 'window': 'default'}})
    # a glob whose name list is longer than 64 KiB (a thousand files with long names), the only pair that does not
    # compare sorting last: through a directory and through a server every matched pair is compared
    cnt = rnd.randint(1005, 1030)
    sub = 'metrics_%s' % ('m' * 64)
    gl = []
    for i in range(cnt):
        for b in ('g', 'h'):
            if b == 'h' and i == cnt - 1:
                continue
            nm = '%s/%s/f%04d.wsp' % (b, sub, i)
            gl += ["create %s 1 1 2 m 2 x 00000000" % nm, "sync %s" % nm, "drop %s" % nm]
    gl += ["clidiff src=g:%s/*.wsp dest=h: from=0 until=0 archive=-1 remote=0" % sub, "clidiff src=g:%s/*.wsp dest=h: from=0 until=0 archive=-1 remote=1 deep=1" % sub,
           "create h/%s/f%04d.wsp 1 1 2 m 2 x 00000000" % (sub, cnt - 1), "sync h/%s/f%04d.wsp" % (sub, cnt - 1), "drop h/%s/f%04d.wsp" % (sub, cnt - 1),
           "clidiff src=g:%s/*.wsp dest=h: from=0 until=0 archive=-1 remote=1 deep=1" % sub]
    cases.append({'id': 'c09-manynames', 'lines': gl, 'tags': {'layout': 'names%d' % cnt, 'pair': 'glob_long_list', 'window': 'default'}})
    return cases


def item_tree(rnd, layout, m, xff, items, files_per_item, hole_density, odd=None, vary_header=False):
    """files base/item/fN.wsp; odd = (item, index, layout) for a file with a differing layout"""
    lines = []
    for it in items:
        for j in range(files_per_item):
            nm = 's/%s/f%d.wsp' % (it.replace('.', '/'), j)
            lay = layout
            if odd and odd[0] == it and odd[1] == j:
                lay = odd[2]
            mm, xx = (rnd.pick(METHODS), rnd.pick([0, 0x3f000000, 0x3e800000])) if vary_header else (m, xff)
            lines += fill_ops(rnd, nm, lay, mm, xx, density=hole_density, inconsistent=rnd.chance(0.5))
    return lines


def gen_c10(rnd, n, thorough=False):
    cases = []
    for c in range(n):
        lname = rnd.pick(['two_1s', 'two_2s', 'three_2s', 'single', 'minute', 'four'])
        layout = CLI_LAYOUTS[lname]
        k = len(layout)
        m, xff = rnd.pick(METHODS), 0x3f000000
        nfiles = rnd.pick([1, 2, 3, 3, 5, 12 if thorough else 6])
        items = rnd.pick([['i1'], ['i1', 'i2'], ['a.b'], ['i+1', 'i&2'], ['i=3']])      # (names special in a query string)
        kind = rnd.pick(['plain', 'plain', 'holes', 'all_nan_column', 'odd_last', 'odd_first', 'odd_middle', 'nomatch_item', 'nomatch_file', 'order', 'one_unreadable', 'first_fresh'])
        odd = None
        if kind.startswith('odd') and nfiles >= 2:
            idx = {'odd_last': nfiles - 1, 'odd_first': 0, 'odd_middle': nfiles // 2}[kind]
            odd = (items[0], idx, rnd.pick([[(s, nn + 7) for s, nn in layout], [(s * 2, nn) for s, nn in layout]]))
        lines = item_tree(rnd, layout, m, xff, items, nfiles, 0.3 if kind == 'holes' else rnd.pick([0.6, 1.0]), odd, vary_header=(kind == 'order'))
        if kind == 'order' and nfiles >= 3:
            # values whose float sum depends on the order of the files
            d = 's/%s' % items[0].replace('.', '/')
            for j, v in enumerate([1e16, -1e16, 1.0]):
                lines += ["open %s/f%d.wsp" % (d, j), "many %s/f%d.wsp 0 @ 1 @-%d %016x" % (d, j, layout[0][0], fbits(v)), "sync %s/f%d.wsp" % (d, j), "drop %s/f%d.wsp" % (d, j)]
        if kind == 'first_fresh':
            # the first file in glob order was never written: its all-NaN series is where the sum starts
            d = 's/%s' % items[0].replace('.', '/')
            lines += ["create %s/a0.wsp %s m %d x %08x" % (d, fmt_layout(layout), m, xff), "sync %s/a0.wsp" % d, "drop %s/a0.wsp" % d]
        linked = kind in ('plain', 'holes', 'all_nan_column') and rnd.chance(0.4)
        if linked:
            # one matched name is a symbolic link to a whisper file elsewhere: it is a file of the item like any other
            lines += fill_ops(rnd, 'other/t.wsp', layout, m, xff, density=0.6, inconsistent=False)
            lines.append("symlink other/t.wsp s/%s/fl.wsp" % items[0].replace('.', '/'))
        if kind == 'one_unreadable':
            un = 'f9.wsp' if nfiles <= 9 else 'fz.wsp'          # (a name the item does not have yet)
            lines += ["create s/%s/%s %s m %d x %08x" % (items[0].replace('.', '/'), un, fmt_layout(layout), m, xff), "drop s/%s/%s" % (items[0].replace('.', '/'), un)]
        wk, frm, until = window(rnd, layout)
        if odd and rnd.chance(0.7):
            wk, frm, until = 'narrow', '@-%d' % rnd.randint(2, layout[0][0] * layout[0][1] - 1), '0'
        arch = rnd.pick([-1, -1, -1] + list(range(k)))
        itempat = 'zz*' if kind == 'nomatch_item' else rnd.pick(['*', items[0].split('.')[0] + '*' if '.' not in items[0] else 'a/b', 'i?']) if items != ['a.b'] else rnd.pick(['a/b', 'a/*'])
        srcpat = 'q*.wsp' if kind == 'nomatch_file' else rnd.pick(['*.wsp', 'f*.wsp', 'f?.wsp', 'f0.wsp', 'f[0-9].wsp', 'f[.wsp'])
        hold = ''
        if kind == 'order':
            hold = ' hold=s/%s/f0.wsp:300' % items[0].replace('.', '/')
        elif rnd.chance(0.3):
            hold = ' remote=1'         # the files summed by a server (the same sum)
        if hold == '':
            hold = ' again=1'          # a sum -- accepted or rejected -- can be repeated at once, with the same verdict
        lines.append("clisum base=s item=%s src=%s from=%s until=%s archive=%d header=%d%s spell=%d" % (itempat, srcpat, frm, until, arch, rnd.pick([0, 1]), hold, rnd.pick([0, 0, 1, 2, 3, 4])))
        if kind == 'first_fresh':
            srcpat = '*.wsp'
            lines[-1] = "clisum base=s item=%s src=*.wsp from=%s until=%s archive=%d header=1" % (itempat, frm, until, arch)
            # the same sum again (a sum leaves nothing behind), and the never-written file read alone
            lines.append(lines[-1])
            lines.append("cliview src=s:%s/a0.wsp from=%s until=%s archive=%d header=0" % (items[0].replace('.', '/'), frm, until, arch))
        cases.append({'id': 'c10-%d' % c, 'lines': lines, 'tags': {'layout': lname, 'kind': kind, 'files': nfiles, 'window': wk, 'remote': int('remote' in hold), 'linked_file': int(linked)}})
        if c == 1:
            cases.append(many_files_case(rnd, 'c10-%d-many' % c, ['sum']))
        if c == 4:
            cases.append({'id': 'c10-wsitem', 'lines': ['cliwsitem'], 'tags': {'layout': 'blank_in_item_name', 'kind': 'wsitem', 'files': 2, 'window': 'default'}})
        if c == 5:
            # a /sum request without a clock of its own (now = the epoch) while the clock moves on between the reads
            # of the files: an error, or the sum for one instant -- never values of different instants side by side
            l2 = CLI_LAYOUTS[rnd.pick(['two_1s', 'three_1s', 'single'])]
            sl = item_tree(rnd, l2, 2, 0x3f000000, ['i1'], 3, 1.0)
            for _q in range(3):
                sl.append("clisumtick item=s/i1 pattern=*.wsp archive=%d t=@ step=%d" % (rnd.pick([-1, 0]), rnd.pick([1, 1, 2, 7])))
            cases.append({'id': 'c10-%d-tick' % c, 'lines': sl, 'tags': {'layout': 'tick', 'kind': 'moving_clock', 'files': 3, 'window': 'default', 'remote': 1}})
        if c == 3:
            # several items, the first one slow (one of its files is held for more than a second): every item is
            # summed up to ITS OWN clock (the default end of the window), also the second and later ones
            l2 = CLI_LAYOUTS[rnd.pick(['two_1s', 'three_1s', 'single'])]
            sl = item_tree(rnd, l2, 2, 0x3f000000, ['i1', 'i2', 'i3'], 2, 1.0)
            sl.append("clisum base=s item=i* src=*.wsp from=0 until=0 archive=-1 header=1 hold=s/i1/f1.wsp:1300")
            cases.append({'id': 'c10-%d-slowitem' % c, 'lines': sl, 'tags': {'layout': 'live', 'kind': 'slow_first_item', 'files': 6, 'window': 'default', 'remote': 0}})
        if c == 7:
            # a sum whose answer is longer than 32 MiB (millions of slots, a few of them written): the same through the directory and a server
            cases.append({'id': 'c10-%d-bigsum' % c, 'lines': ["clibigsum n=%d" % 9000000],
                          'tags': {'layout': 'big', 'kind': 'long_answer', 'files': 2, 'window': 'half', 'remote': 1}})
        if c == 6:
            # an item directory that exists but holds no file matching the pattern (alone, and as the second of two
            # items): "does not exist", through a directory and through a server alike
            l2 = CLI_LAYOUTS['two_1s']
            sl = item_tree(rnd, l2, 2, 0x3f000000, ['i1'], 2, 1.0) + fill_ops(rnd, 's/i2/g0.wsp', l2, 2, 0x3f000000, density=0.5, inconsistent=False)
            for itp in ('i2', 'i*', 'i[12]'):
                for rem in (0, 1):
                    sl.append("clisum base=s item=%s src=f*.wsp from=0 until=0 archive=-1 header=1 remote=%d" % (itp, rem))
            cases.append({'id': 'c10-%d-nomatch' % c, 'lines': sl, 'tags': {'layout': 'two_1s', 'kind': 'item_without_matching_files', 'files': 3, 'window': 'default', 'remote': 1}})
        if c == 2:
            cases.append(many_files_case(rnd, 'c10-%d-hundreds' % c, ['sum'], nfiles=rnd.pick([257, 260, 300, 515] if thorough else [257, 260, 300])))
    # the files of an item one directory below it (a pattern with a directory in it), in a tree that has not changed
    # for a while; summed through ONE server, then a matching file appears in (and later one disappears from) an
    # existing directory and the sum is asked again: always the files that match at that moment
    l2 = CLI_LAYOUTS['two_1s']
    sl = []
    for h in ('h1', 'h2'):
        sl += fill_ops(rnd, 's/i1/%s/req.wsp' % h, l2, 2, 0x3f000000, density=0.7, inconsistent=False)
    sl += fill_ops(rnd, 's/i1/h3/other.wsp', l2, 2, 0x3f000000, density=0.7, inconsistent=False)
    sl += ["olddir s/i1 30", "olddir s 30"]
    for rem in (1, 0):
        sl.append("clisum base=s item=i1 src=*/req.wsp from=0 until=0 archive=-1 header=1 remote=%d" % rem)
    sl += fill_ops(rnd, 's/i1/h3/req.wsp', l2, 2, 0x3f000000, density=0.7, inconsistent=False)
    for rem in (1, 0):
        sl.append("clisum base=s item=i1 src=*/req.wsp from=0 until=0 archive=-1 header=1 remote=%d" % rem)
    sl += ["rmfile s/i1/h2/req.wsp"]
    for rem in (1, 0):
        sl.append("clisum base=s item=i1 src=*/req.wsp from=0 until=0 archive=-1 header=1 remote=%d" % rem)
    cases.append({'id': 'c10-subdir-change', 'lines': sl, 'tags': {'layout': 'two_1s', 'kind': 'files_below_item_change_between_sums', 'files': 3, 'window': 'default', 'remote': 1}})
    return cases


def many_files_case(rnd, cid, subs, nfiles=None):
    """one item with 66 to 90 files (more than any batch or worker pool), one of them unreadable at a
    random position: the sum of all but that one is not a sum -- the commands report the error;
    with nfiles given: that many files (hundreds), all readable: every file counts exactly once"""
    layout = [(1, 6), (3, 4)]
    r = rnd.random()
    if nfiles is None:
        nfiles = rnd.randint(66, 90)
        bad = rnd.randrange(64) if r < 0.6 else (rnd.randrange(nfiles) if r < 0.85 else None)      # mostly within the first 64
    else:
        bad = None
    lines = []
    for j in range(nfiles):
        nm = 's/i1/f%03d.wsp' % j
        if j == bad:
            lines += ["create %s %s m 2 x 3f000000" % (nm, fmt_layout(layout)), "drop %s" % nm]
        else:
            lines += fill_ops(rnd, nm, layout, 2, 0x3f000000, density=0.5, inconsistent=False)
    common = "base=s item=i1 src=f*.wsp"
    for sub in subs:
        if sub == 'sum':
            lines.append("clisum %s from=0 until=0 archive=-1 header=1 remote=%d" % (common, rnd.pick([0, 1])))
            lines.append("clisum %s from=0 until=0 archive=7 header=1" % common)      # every read fails
        elif sub == 'sumdiff':
            lines.append("clisumdiff %s destbase=e dest=sum.wsp from=0 until=0 archive=-1" % common)
        elif sub == 'sumcopy':
            lines += ["clisumcopy %s destbase=e dest=sum.wsp from=0 until=0 archive=-1 m=2 x=3f000000 layout=%s" % (common, lay_csv(layout))]
            observe_all(lines, 'e/i1/sum.wsp', layout)
    return {'id': cid, 'lines': lines, 'tags': {'layout': 'tiny', 'kind': 'many_files', 'files': nfiles, 'window': 'default', 'src': 'many', 'dest': 'missing', 'sub': {s_: 1 for s_ in subs}}}


def gen_c11(rnd, n, thorough=False):
    cases = []
    for c in range(n):
        lname = rnd.pick(['two_1s', 'two_2s', 'three_1s', 'three_2s', 'minute', 'four'])
        layout = CLI_LAYOUTS[lname]
        k = len(layout)
        m, xff = rnd.pick(METHODS), rnd.pick([0, 0x3f000000])
        nfiles = rnd.pick([1, 2, 3])
        items = rnd.pick([['i1'], ['i1', 'i2'], ['a.b'], ['a.b', 'a.c'], ['web+api', 'x&y'], ['q=1']])      # dotted item = nested directory a/b; names special in a query
        itempat = 'a/*' if items[0].startswith('a.') else '*'
        lines = item_tree(rnd, layout, m, xff, items, nfiles, rnd.pick([0.4, 0.9]))
        destkind = rnd.pick(['absent', 'empty', 'partial', 'stale', 'mismatch', 'missing_src', 'cascade', 'value_equal'])
        if destkind == 'cascade':
            lname = rnd.pick(['three_1s', 'three_2s', 'four'])
            layout = CLI_LAYOUTS[lname]
            k = len(layout)
            items, nfiles, itempat = ['i1'], 1, '*'
            lines, cdst = cascade_pair(rnd, 's/i1/f0.wsp', 'd/i1/sum.wsp', layout, m, xff)
            lines += cdst
        if destkind == 'value_equal':
            # the sum and the destination are equal as VALUES and differ as bit patterns: opposite infinities
            # sum to a NaN the hardware makes up (the destination slot was never written), and -0 = +0
            items, nfiles, itempat = ['i1'], 2, '*'
            S0, N0 = layout[0]
            j1, j2 = rnd.sample(range(1, N0), 2)
            lines = ["create s/i1/f0.wsp %s m %d x %08x" % (fmt_layout(layout), m, xff), "create s/i1/f1.wsp %s m %d x %08x" % (fmt_layout(layout), m, xff),
                     "many s/i1/f0.wsp 0 @ 2 @-%d 7ff0000000000000 @-%d 8000000000000000" % (j1 * S0, j2 * S0),
                     "many s/i1/f1.wsp 0 @ 1 @-%d fff0000000000000" % (j1 * S0),
                     "sync s/i1/f0.wsp", "drop s/i1/f0.wsp", "sync s/i1/f1.wsp", "drop s/i1/f1.wsp",
                     "create d/i1/sum.wsp %s m %d x %08x" % (fmt_layout(layout), m, xff), "many d/i1/sum.wsp 0 @ 1 @-%d 0000000000000000" % (j2 * S0),
                     "sync d/i1/sum.wsp", "drop d/i1/sum.wsp"]
        for it in items:
            dn = 'd/%s/sum.wsp' % it.replace('.', '/')
            if destkind == 'empty':
                lines += ["create %s %s m %d x %08x" % (dn, fmt_layout(layout), m, xff), "sync %s" % dn, "drop %s" % dn]
            elif destkind in ('partial', 'stale'):
                lines += fill_ops(rnd, dn, layout, m, xff, density=0.5, inconsistent=True)
            elif destkind == 'mismatch':
                lines += fill_ops(rnd, dn, [(s, nn + 3) for s, nn in layout], m, xff, density=0.5)
        wk, frm, until = window(rnd, layout)
        arch = rnd.pick([-1, -1, -1] + list(range(k)))
        if destkind == 'cascade':
            wk, frm, until, arch = 'default', '0', '0', -1
        srcpat = 'q*.wsp' if destkind == 'missing_src' else '*.wsp'
        common = "base=s item=" + itempat + " src=%s destbase=d dest=sum.wsp from=%s until=%s archive=%d spell=%d" % (srcpat, frm, until, arch, rnd.pick([0, 0, 1, 2, 3, 4]))
        if rnd.chance(0.25) or items[0] in ('web+api', 'q=1'):
            common += " remote=1 deep=1"          # the sources summed by a server (one serving exactly the base: item names are the same)
        lines.append("clisumdiff " + common)
        lines.append("clisumcopy " + common + " m=%d x=%08x layout=%s" % (m, xff, lay_csv(layout)))
        for it in items:
            observe_all(lines, 'd/%s/sum.wsp' % it.replace('.', '/'), layout)
        lines.append("clisumdiff " + common)
        if k >= 3 or rnd.chance(0.5):
            # a later change of one finest slot of one source, then copy and compare again
            it = items[0]
            S0, N0 = layout[0]
            fn = 's/%s/f0.wsp' % it.replace('.', '/')
            lines += ["open %s" % fn, "many %s 0 @ 1 @-%d %016x" % (fn, rnd.randrange(N0) * S0, fbits(float(rnd.randint(100, 200)))), "sync %s" % fn, "drop %s" % fn]
            lines.append("clisumdiff " + common)
            lines.append("clisumcopy " + common + " m=%d x=%08x layout=%s" % (m, xff, lay_csv(layout)))
            for it2 in items:
                observe_all(lines, 'd/%s/sum.wsp' % it2.replace('.', '/'), layout)
            lines.append("clisumdiff " + common)
        lines.append("clisum base=s item=%s src=%s from=%s until=%s archive=%d header=1" % (itempat, srcpat, frm, until, arch))
        cases.append({'id': 'c11-%d' % c, 'lines': lines, 'tags': {'layout': lname, 'dest': destkind, 'files': nfiles, 'window': wk}})
        if c == 1:
            # three sources whose sum depends on the order of the additions (1e16, -1e16, 1), each in turn the slowest
            # to be read: the sum is the fold in the order of the file names, so sum-copy and sum-diff agree every time
            l2 = CLI_LAYOUTS[rnd.pick(['two_1s', 'three_1s'])]
            ll = []
            for j, v in enumerate([1e16, -1e16, 1.0]):
                ll += ["create s/i1/f%d.wsp %s m 2 x 3f000000" % (j, fmt_layout(l2)),
                       "many s/i1/f%d.wsp 0 @ 2 @-%d %016x @-%d %016x" % (j, l2[0][0], fbits(v), 3 * l2[0][0], fbits(0.1 * (j + 1))), "sync s/i1/f%d.wsp" % j, "drop s/i1/f%d.wsp" % j]
            cm = "base=s item=i1 src=*.wsp destbase=d dest=sum.wsp from=0 until=0 archive=-1"
            ll.append("clisumcopy " + cm + " m=2 x=3f000000 layout=%s slow=s/i1/f0.wsp:300" % lay_csv(l2))
            observe_all(ll, 'd/i1/sum.wsp', l2)
            for j in (1, 2, 0):
                ll.append("clisumdiff " + cm + " slow=s/i1/f%d.wsp:300" % j)
            cases.append({'id': 'c11-%d-order' % c, 'lines': ll, 'tags': {'layout': 'order', 'dest': 'absent', 'files': 3, 'window': 'default'}})
        if c == 3:
            # one of the items is a symbolic link to a directory elsewhere: it is an item like any other, for sum-copy
            # as for sum-diff
            l2 = CLI_LAYOUTS[rnd.pick(['two_1s', 'three_1s'])]
            ll = item_tree(rnd, l2, 2, 0x3f000000, ['ia'], 2, 0.6)
            ll.append("dirlink other/tgt s/ib")
            for q in range(2):
                ll += fill_ops(rnd, 's/ib/f%d.wsp' % q, l2, 2, 0x3f000000, density=0.6, inconsistent=False)
            cm = "base=s item=i* src=*.wsp destbase=d dest=sum.wsp from=0 until=0 archive=-1"
            ll.append("clisumcopy " + cm + " m=2 x=3f000000 layout=%s" % lay_csv(l2))
            for it in ('ia', 'ib'):
                observe_all(ll, 'd/%s/sum.wsp' % it, l2)
            ll.append("clisumdiff " + cm)
            cases.append({'id': 'c11-%d-linkitem' % c, 'lines': ll, 'tags': {'layout': 'linked_item', 'dest': 'absent', 'files': 2, 'window': 'default'}})
        if c == 2:
            # several items while the sources are being written: the first item's destination is kept
            # locked for two clock seconds, meanwhile a source of the second item receives a point; the
            # default window of the second item ends at ITS clock
            l2 = CLI_LAYOUTS[rnd.pick(['two_1s', 'three_1s'])]
            ll = item_tree(rnd, l2, 2, 0x3f000000, ['i1', 'i2'], 2, 0.6)
            ll += ["create d/i1/sum.wsp %s m 2 x 3f000000" % fmt_layout(l2), "sync d/i1/sum.wsp", "drop d/i1/sum.wsp"]
            cm = "base=s item=* src=*.wsp destbase=d dest=sum.wsp from=0 until=0 archive=-1"
            ll.append("clisumcopy " + cm + " m=2 x=3f000000 layout=%s live=s/i2/f1.wsp hold=d/i1/sum.wsp" % lay_csv(l2))
            observe_all(ll, 'd/i2/sum.wsp', l2, until='@+9', now='@+9')
            ll.append("clisumdiff " + cm)
            cases.append({'id': 'c11-%d-live' % c, 'lines': ll, 'tags': {'layout': 'live', 'dest': 'items_live_source', 'files': 2, 'window': 'default'}})
    return cases


def gen_c18(rnd, n, thorough=False):
    cases = []
    for c in range(n):
        if c == 7 or (thorough and c % 100 == 7):
            # an archive with more than 2^16 slots, written on both sides of physical slot 65536
            N = rnd.pick([70000, 66000, 67000])
            offs = [0, 1, 2, N - 65537, N - 65536, N - 65535, N - 1, N - 2] + [rnd.randrange(N) for _ in range(6)]
            offs = sorted(set(o for o in offs if 0 <= o < N))
            lines = ["create s/a.wsp 1 1 %d m %d x 00000000" % (N, rnd.pick(METHODS)),
                     "many s/a.wsp 0 @ %d %s" % (len(offs), " ".join("@-%d %016x" % (o, cvalue(rnd)) for o in offs)),
                     "sync s/a.wsp", "drop s/a.wsp",
                     "cliviewraw src=s:a.wsp from=0 until=0 archive=0 header=0 sort=%d" % (rnd.pick([0, 1]) if thorough else 0),   # (the model's insertion sort of 70 000 points takes half a minute)
                     "cliview src=s:a.wsp from=0 until=0 archive=0 header=1"]
            # ... and, through a server: a client resets its connection while this big answer is on its way; the
            # requests that follow show exactly what their own file stores
            lines += fill_ops(rnd, 's/small.wsp', [(1, 20), (5, 12)], 2, 0x3f000000, density=0.6)
            lines += ["cliabort file=s/a.wsp path=view-raw", "cliview src=s:small.wsp from=0 until=0 archive=-1 header=1 remote=1",
                      "cliabort file=s/a.wsp path=view", "cliviewraw src=s:small.wsp from=0 until=0 archive=-1 header=1 sort=1 remote=1"]
            cases.append({'id': 'c18-%d' % c, 'lines': lines, 'tags': {'layout': 'big%d' % N}})
            continue
        if c == 4:
            # a file whose finest archive was never written while a coarser one holds data (back-filled, or written with
            # an explicit archive id): view-raw of all archives shows those slots, as view and view-raw of that archive do
            lname = rnd.pick(['two_1s', 'three_2s', 'three_1s'])
            layout = CLI_LAYOUTS[lname]
            kk = len(layout)
            el = fill_ops(rnd, 's/a.wsp', layout, 2, 0x3f000000, density=0.7, inconsistent=True, only=[kk - 1])
            el += ["cliviewraw src=s:a.wsp from=0 until=0 archive=-1 header=%d sort=%d remote=%d" % (rnd.pick([0, 1]), rnd.pick([0, 1]), rem) for rem in (0, 1)]
            el += ["cliviewraw src=s:a.wsp from=0 until=0 archive=%d header=0 sort=1" % (kk - 1), "cliview src=s:a.wsp from=0 until=0 archive=-1 header=1"]
            cases.append({'id': 'c18-%d-coarseonly' % c, 'lines': el, 'tags': {'layout': lname, 'window': 'default', 'fill': 'coarsest_only'}})
        if c == 5:
            # windows that end exactly where the retention of an archive begins (and a second or two later: the command
            # reads its own clock), on densely written archives
            lname = rnd.pick(['two_1s', 'three_2s', 'two_2s'])
            layout = CLI_LAYOUTS[lname]
            el = fill_ops(rnd, 's/a.wsp', layout, 2, 0x3f000000, density=1.0, inconsistent=True)
            for a_, (S_, N_) in enumerate(layout):
                for d_ in (0, 1, 2, 3):
                    el.append("cliview src=s:a.wsp from=@-%d until=@-%d archive=%d header=0 remote=%d" % (S_ * N_ + 3 * S_, S_ * N_ - d_, rnd.pick([a_, -1]), rnd.pick([0, 0, 1])))
            cases.append({'id': 'c18-%d-edge' % c, 'lines': el, 'tags': {'layout': lname, 'window': 'retention_edge'}})
        lname = rnd.pick(list(CLI_LAYOUTS))
        layout = CLI_LAYOUTS[lname]
        if rnd.chance(0.15):
            # retentions and steps whose text needs care: whole years that are also whole weeks (7y = 365w), days
            # that are whole weeks, hours that are whole days, seconds that are nothing rounder
            lname, layout = rnd.pick([('weeks_7y', [(86400, 7), (604800, 365)]), ('weeks_14y', [(604800, 730)]), ('days_2y', [(3600, 24), (86400, 730)]),
                                      ('hours_3d', [(60, 60), (3600, 72)]), ('odd_seconds', [(7, 11), (77, 13)]), ('year_steps', [(86400, 365), (31536000, 3)])])
        k = len(layout)
        m, xff = rnd.pick(METHODS), rnd.pick(XFF_VALID)
        vname = rnd.pick(['a.wsp', 'a.wsp', 'cpu+io.wsp', 'rx&tx.wsp', 'q=1.wsp'])
        lines = fill_ops(rnd, 's/' + vname, layout, m, xff, density=rnd.pick([0.2, 0.7, 1.0]))
        future = rnd.chance(0.3)
        if future:
            # points dated after the clock (the batch API stores them, one lap ahead): view shows the
            # slot of the window's time as empty, view-raw shows the point under its own time
            S0, N0 = layout[0]
            fp = [("@+%d" % (rnd.randint(1, N0 - 1) * S0), cvalue(rnd, False)) for _ in range(rnd.randint(1, 4))]
            lines = lines[:-2] + ["many s/%s 0 @ %d %s" % (vname, len(fp), " ".join("%s %016x" % tv for tv in fp))] + lines[-2:]
        for _ in range(rnd.randint(2, 5)):
            wk, frm, until = window(rnd, layout)
            arch = rnd.pick([-1, -1] + list(range(k)) + [k, -2])
            if rnd.chance(0.5):
                lines.append("cliview src=s:%s from=%s until=%s archive=%d header=%d remote=%d" % (vname, frm, until, arch, rnd.pick([0, 1]), rnd.pick([0, 0, 1])))
            else:
                lines.append("cliviewraw src=s:%s from=%s until=%s archive=%d header=%d sort=%d remote=%d" % (vname, frm, until, arch, rnd.pick([0, 1]), rnd.pick([0, 1]), rnd.pick([0, 0, 1])))
        if c % 6 == 2:
            # ONE command value executed twice, the file receiving a point in between (a clock second later): the
            # second run shows what is stored then, up to its own clock
            if rnd.chance(0.5):
                lines.append("cliview src=s:%s from=0 until=0 archive=%d header=%d twice=1" % (vname, rnd.pick([-1, 0]), rnd.pick([0, 1])))
            else:
                lines.append("cliviewraw src=s:%s from=0 until=0 archive=%d header=%d sort=1 twice=1" % (vname, rnd.pick([-1, 0]), rnd.pick([0, 1])))
        if rnd.chance(0.25):
            lines.append("setmaxret s/%s %d" % (vname, rnd.pick([layout[-1][0] * layout[-1][1] * 2, 1, 7200, 2 ** 31 - 1])))
        a = rnd.randrange(k)
        lines.append("cliview src=s:%s from=0 until=0 archive=%d header=1 remote=%d" % (vname, a, rnd.pick([0, 1])))
        lines.append("cliviewraw src=s:%s from=0 until=0 archive=%d header=0 sort=1 remote=%d" % (vname, a, rnd.pick([0, 1])))
        cases.append({'id': 'c18-%d' % c, 'lines': lines, 'tags': {'layout': lname}})
    # view and view-raw of a file with never-written archives, after the same process (or the same server) has
    # summed an item whose first file was never written while a later one holds data: still exactly what is stored
    for j in range(2):
        lay = [(1, 30), (5, 12)]
        ll = ["create s/i1/a0.wsp %s m 2 x 3f000000" % fmt_layout(lay), "sync s/i1/a0.wsp", "drop s/i1/a0.wsp",
              "create s/i1/f1.wsp %s m 2 x 3f000000" % fmt_layout(lay),
              "many s/i1/f1.wsp -1 @ 3 @ %016x @-2 %016x @-7 %016x" % (fbits(5.0), fbits(6.0), fbits(7.0)), "sync s/i1/f1.wsp", "drop s/i1/f1.wsp",
              "create s/i2/z.wsp %s m 2 x 3f000000" % fmt_layout(lay), "sync s/i2/z.wsp", "drop s/i2/z.wsp",
              "cliview src=s:i2/z.wsp from=0 until=0 archive=-1 header=1 remote=%d" % j,
              "clisum base=s item=i1 src=*.wsp from=0 until=0 archive=-1 header=0 remote=%d" % j,
              "cliview src=s:i2/z.wsp from=0 until=0 archive=-1 header=1 remote=%d" % j,
              "cliviewraw src=s:i2/z.wsp from=0 until=0 archive=-1 header=0 sort=1 remote=%d" % j,
              "cliview src=s:i1/a0.wsp from=0 until=0 archive=1 header=0 remote=%d" % (1 - j)]
        cases.append({'id': 'c18-aftersum-%d' % j, 'lines': ll, 'tags': {'layout': 'aftersum'}})
    return cases


def gen_c20(rnd, n, thorough=False):
    cases = []
    lay = [[(1, 10), (5, 6)], [(1, 12), (2, 12), (6, 8)], [(2, 8), (10, 6)], [(1, 20)], [(1, 6), (3, 6), (9, 6), (27, 4)], [(5, 4), (10, 4)]]
    for c in range(n):
        layout = rnd.pick(lay)
        m, xff = rnd.pick(METHODS), rnd.pick([0, 0x3f000000, 0x3f800000])
        fill = rnd.pick([1, 1, 1, 0])
        mx = rnd.pick([0, 1, 10, 1000, 1000, -1, -100])        # a negative bound cannot be used: an error, no file
        lines = []
        if c % 3 == 1:
            # the generator and the per-archive write at an explicit generation instant: aligned or
            # not to each step, in the last finer slot of a coarser interval, before and after 2^31
            # ... and coarser archives less than one of their own steps longer than the finer one
            layout = rnd.pick(lay + [[(1, 7), (7, 10)], [(2, 3), (6, 5)], [(1, 5), (5, 4), (20, 3)], [(1, 4), (4, 2), (8, 6)],
                                     [(1, 9), (6, 2)], [(1, 12), (10, 2)], [(1, 3), (2, 2)], [(1, 9), (4, 3), (8, 2)], [(60, 90), (3600, 2)],
                                     [(1, 9), (6, 2)], [(1, 9), (4, 3), (8, 2)]])
            if rnd.chance(0.3):
                # archives of several hundred points whose ring wraps at (or next to) a multiple of a page worth of
                # slots (4096 / 12 = 341) behind the slots the finest archive covers
                fine = rnd.pick([(1, 600), (1, 300), (2, 300)])
                cover = fine[0] * fine[1] // 60
                n1 = cover + 341 * rnd.pick([1, 1, 2]) + rnd.pick([0, 1, 2, -1])
                layout = [fine, (60, n1)] + ([(3600, 24 * 30)] if rnd.chance(0.4) else [(300, 12 * 24 * 3)] if rnd.chance(0.3) else [])
            top = layout[-1][0]
            base = rnd.pick([1700000000, 1700000000, 2 ** 31 - 40, 2 ** 31 + 1000, 2 ** 31 + 10 ** 8, 3 * 10 ** 9])
            now = base + rnd.pick([0, rnd.randrange(top), top - 1 - base % top, rnd.randrange(10 ** 5)])
            mx = abs(mx)          # (the hooks call the generator below the command's own check of the bound)
            lines.append("cligenat dest=g/x.wsp m=%d x=%08x layout=%s max=%d seed=%d now=%d" % (m, xff, lay_csv(layout), mx, rnd.randint(1, 10 ** 6), now))
            lines.append("hdrof g/x.wsp")
            for a, (S, N) in enumerate(layout):
                lines.append("dfetch g/x.wsp %d %d %d %d" % (a, now - S * N, now, now))
            cases.append({'id': 'c20-%d' % c, 'lines': lines, 'tags': {'levels': len(layout), 'fill': 1, 'max': mx, 'genat': 'post2038' if now >= 2 ** 31 else 'pre2038'}})
            continue
        if rnd.chance(0.15):
            lines += ["create g/x.wsp 1 1 5 m 1 x 00000000", "sync g/x.wsp", "drop g/x.wsp", "snap g/x.wsp"]
        lines.append("cligenerate dest=g/x.wsp m=%d x=%08x layout=%s max=%d fill=%d" % (m, xff, lay_csv(layout), mx, fill))
        lines.append("disk g/x.wsp" if len(lines) > 1 else "hdrof g/x.wsp")
        if len(lines) == 2 and lines[-1].startswith('hdrof'):
            observe_all(lines, 'g/x.wsp', layout, until='@+3', now='@+3')
        cases.append({'id': 'c20-%d' % c, 'lines': lines, 'tags': {'levels': len(layout), 'fill': fill, 'max': mx}})
    # two generate commands for one missing path, overlapping: exactly one of them creates the file (the other one
    # reports that it exists), and the file is the one the successful command describes
    cases.append({'id': 'c20-overlap', 'lines': ["cligen2 dest=g/o.wsp layout=%s stagger=%d" % (lay_csv([(1, rnd.pick([200000, 220000])), (60, 10000)]), rnd.pick([20, 30, 40]))],
                  'tags': {'levels': 2, 'fill': 1, 'max': 10, 'dest': 'two_overlapping_runs'}})
    for mx in (2000000000, 1073741824):
        gl = rnd.pick([[(1, 10), (2, 6)], [(1, 8), (4, 4), (16, 3)]])
        cases.append({'id': 'c20-genmax-%d' % mx, 'lines': ["cligenerate dest=g/big.wsp m=2 x=3f000000 layout=%s max=%d fill=1" % (lay_csv(gl), mx), "hdrof g/big.wsp"],
                      'tags': {'levels': len(gl), 'fill': 1, 'max': mx}})
    # a destination named through a linked directory and "..": the file is created where the operating system finds
    # that name (next to the directory the link points to), not where the text of the name seems to point
    layout = rnd.pick(lay)
    ll = ["dirlink real/sub lnk", "cligenerate dest=lnk/../x.wsp m=2 x=3f000000 layout=%s max=10 fill=%d" % (lay_csv(layout), rnd.pick([0, 1])),
          "hdrof real/x.wsp", "hdrof x.wsp", "cligenerate dest=lnk/y.wsp m=2 x=3f000000 layout=%s max=10 fill=1" % lay_csv(layout), "hdrof real/sub/y.wsp"]
    cases.append({'id': 'c20-linkdest', 'lines': ll, 'tags': {'levels': len(layout), 'fill': 1, 'max': 10, 'dest': 'through_link'}})
    # the layout arrives as text: a retention whose seconds do not fit 32 bits is refused, whatever its wrapped value
    ll = []
    for rt in ['1s:49711d', '1s:137y', '2s:7102w', '1s:1m,2s:49711d', '1s:1193047h', '1s:71582789m', '1s:24855d', '1s:68y', '1s:69y', '1s:3550w']:
        ll.append('cliargs generate %s' % ' '.join(a.encode().hex() for a in ['-dest', 'g.wsp', '-agg-method', 'sum', '-retentions', rt]))
    cases.append({'id': 'c20-retentions', 'lines': ll, 'tags': {'levels': 0, 'fill': 0, 'max': 0, 'args': 1}})
    # the bound arrives as text: every spelling of an integer the flag package reads (base prefixes,
    # a leading zero is octal, signs) gives the bound it denotes, anything else is a usage error
    ll = []
    for mx in ['010', '0100', '0777', '08', '0o17', '0O17', '0b101', '0x10', '0X1f', '+7', '-0', '00', '0', '10', '0x', '0b2', '1e3', ' 7', '7 ', '']:
        ll.append('cliargs generate %s' % ' '.join((a.encode().hex() or '-') for a in ['-dest', 'g.wsp', '-agg-method', 'sum', '-retentions', '1s:1m', '-max', mx]))
    cases.append({'id': 'c20-maxtext', 'lines': ll, 'tags': {'levels': 0, 'fill': 0, 'max': 0, 'args': 1}})
    # the xFilesFactor arrives as text: the header gets the float32 nearest to the number written, also for long
    # literals that lie next to the midpoint of two float32 values
    ll = []
    for xs in ['0.5000000298023224', '0.2500000149011611938476562501', '0.7500000298023223876953126', '0.50000002980232238769531250000001', '0.5000000298023223876953125',
               '0.3', '0.1', '1e-46', '1.00000001', '0.99999997', '0.999999970197677612304687500001', '1e-45', '7.006492321624085e-46', '7.0064923216240862e-46']:
        ll.append('cliargs generate %s' % ' '.join((a.encode().hex() or '-') for a in ['-dest', 'g.wsp', '-agg-method', 'sum', '-retentions', '1s:1m', '-x-files-factor', xs]))
    cases.append({'id': 'c20-xfftext', 'lines': ll, 'tags': {'levels': 0, 'fill': 0, 'max': 0, 'args': 1}})
    # archives of 4 GiB and more (the file is sparse): the file is as long as its header says
    gl = []
    for lay in [[(1, 378000000)], [(1, 86400), (5, 378432000)], [(1, 357913941)], [(1, 357913942)], [(2, 357913943)], [(1, 100), (2, 715827882)], [(1, 10), (5, 6)]]:
        gl.append("cligensize dest=g/huge.wsp m=2 x=3f000000 layout=%s" % lay_csv(lay))
    cases.append({'id': 'c20-huge', 'lines': gl, 'tags': {'levels': 1, 'fill': 0, 'max': 10, 'size': 'GiB'}})
    # layouts whose file is an exact number of mebibytes (and one slot more / less), created without fill:
    # the file has the length its header describes and can be opened
    for j, lay in enumerate([[(1, 87379)], [(1, 43200), (60, 44178)], [(1, 87380)]] if not thorough else [[(1, 87379)], [(1, 43200), (60, 44178)], [(1, 87380)], [(1, 87378)], [(1, 174759)]]):
        gl = ["cligenerate dest=g/m%d.wsp m=2 x=3f000000 layout=%s max=10 fill=0" % (j, lay_csv(lay)), "hdrof g/m%d.wsp" % j,
              "dfetch g/m%d.wsp 0 @-5 @ @" % j]
        cases.append({'id': 'c20-mib-%d' % j, 'lines': gl, 'tags': {'levels': len(lay), 'fill': 0, 'max': 10, 'size': 'MiB'}})
    # ONE generate command value executed twice, for two destinations, two clock seconds apart: the second file is
    # complete up to the instant of ITS run
    for j_ in range(1 if not thorough else 2):
        lay_ = [(1, 30), (5, 24)] if j_ == 0 else [(1, 12), (4, 6), (12, 5)]
        ll_ = ["cligenerate dest=g/tw%d.wsp m=2 x=3f000000 layout=%s max=50 fill=1 twice=1" % (j_, lay_csv(lay_)), "hdrof g/tw%d.wsp" % j_]
        cases.append({'id': 'c20-twice-%d' % j_, 'lines': ll_, 'tags': {'levels': len(lay_), 'fill': 1, 'max': 50, 'genat': 'same_value_twice'}})
    return cases


GENS = {'C08': gen_c08, 'C09': gen_c09, 'C10': gen_c10, 'C11': gen_c11, 'C18': gen_c18, 'C20': gen_c20}


def gen_c12(rnd, n, thorough=False):
    """Every read through a directory and through the URL of a server serving it: the model predicts
    one answer for both.  File names include characters that are special in a query string."""
    cases = []
    for c in range(n):
        lname = rnd.pick(['two_1s', 'two_2s', 'three_2s', 'single', 'minute'])
        layout = CLI_LAYOUTS[lname]
        k = len(layout)
        m, xff = rnd.pick(METHODS), rnd.pick(XFF_VALID)
        names = rnd.sample(['a.wsp', 'cpu+io.wsp', 'rx&tx.wsp', 'p%41.wsp', 'q=1.wsp', 'sub/b.wsp', 'x~y.wsp', 'h#1.wsp'], 3)
        if rnd.chance(0.4):
            names = ['a.wsp', 'sub/b.wsp', names[0] if names[0] not in ('a.wsp', 'sub/b.wsp') else 'x~y.wsp']
        lines = []
        for nm in names:
            lines += fill_ops(rnd, 's/i1/' + nm, layout, m, xff, density=rnd.pick([0.3, 0.9]))
        lines += fill_ops(rnd, 's/i2/a.wsp', layout, m, xff, density=0.5)
        siblings = rnd.chance(0.3)
        if siblings:
            # directories one of which is a prefix of the other, with a wildcard above them: the
            # component-wise order of a directory walk differs from the bytewise order of the joined names
            for d in ('web/cpu', 'web-db/cpu', 'web+x/cpu'):
                lines += fill_ops(rnd, 's/%s/a.wsp' % d, layout, m, xff, density=0.6)
            wk, frm, until = window(rnd, layout)
            for remote in (0, 1):
                lines.append("clisum base=s item=*/cpu src=*.wsp from=%s until=%s archive=-1 header=1 remote=%d" % (frm, until, remote))
            lines.append("clidiff src=s:*/cpu/*.wsp dest=s: from=%s until=%s archive=-1 remote=0" % (frm, until))
            lines.append("clidiff src=s:*/cpu/*.wsp dest=ROOT: from=%s until=%s archive=-1 remote=1" % (frm, until))
        if rnd.chance(0.3):
            # a file whose max-retention word is stale (another tool resized it): the header shows the stored word both ways
            lines += ["setmaxret s/i1/%s %d" % (names[0], rnd.pick([layout[-1][0] * layout[-1][1] * 2, 1, 0, 7200, 2 ** 31 - 1]))]
            for remote in (0, 1):
                lines.append("cliview src=s:i1/%s from=0 until=0 archive=-1 header=1 remote=%d" % (names[0], remote))
                lines.append("cliviewraw src=s:i1/%s from=0 until=0 archive=-1 header=1 sort=1 remote=%d" % (names[0], remote))
            lines.append("clisum base=s item=i2 src=a.wsp from=0 until=0 archive=-1 header=1 remote=1")
        for _ in range(rnd.randint(3, 6)):
            # besides files and missing files: a directory and a path through a regular file (they
            # exist but cannot be opened: an error, not "does not exist", on both access paths)
            nm = rnd.pick(names + ['nope.wsp', 'cpu io.wsp'.replace(' ', '_'), 'sub', 'a.wsp/x.wsp'])
            wk, frm, until = window(rnd, layout)
            arch = rnd.pick([-1, -1] + list(range(k)) + [k])
            if nm not in names:
                # a missing file together with a second, different failure is reported as whichever of
                # the two concurrent reads fails first: not determined, not generated
                arch = rnd.pick([-1] + list(range(k)))
            kind = rnd.pick(['view', 'view', 'viewraw', 'sum', 'diffsrc', 'diffdest', 'copysrc', 'globdiff', 'http'])
            spell = rnd.pick(['', '', '', ' urlspell=1', ' urlspell=2'])     # the server's URL written with a trailing slash / a "." element
            for remote in (0, 1):
                r = ' remote=%d' % remote + (spell if remote else '')
                if kind == 'view':
                    lines.append("cliview src=s:i1/%s from=%s until=%s archive=%d header=1%s" % (nm, frm, until, arch, r))
                elif kind == 'viewraw':
                    lines.append("cliviewraw src=s:i1/%s from=%s until=%s archive=%d header=1 sort=1%s" % (nm, frm, until, arch, r))
                elif kind == 'sum':
                    pat = rnd.pick(['*.wsp', 'a.wsp', 'zz*.wsp', '*+*.wsp', '*', 's*', '[', 'a[.wsp'])      # incl. malformed patterns: an error both ways
                    item = rnd.pick(['i*', 'i1', 'zz*', 'i[', '[a-'])
                    lines.append("clisum base=s item=%s src=%s from=%s until=%s archive=%d header=1%s" % (item, pat, frm, until, arch, r))
                    lines[-1] = lines[-1]   # the same patterns both ways
                    if remote == 0:
                        keep = lines[-1]
                    else:
                        lines[-1] = keep.replace(' remote=0', ' remote=1')
                elif kind == 'diffsrc':
                    lines.append("clidiff src=s:i1/%s dest=s:i2/a.wsp from=%s until=%s archive=%d%s" % (nm, frm, until, arch, r))
                elif kind == 'diffdest':
                    lines.append("clidiff src=s:i2/a.wsp dest=s:i1/%s from=%s until=%s archive=%d remotedest=%d" % (nm, frm, until, arch, remote))
                elif kind == 'copysrc':
                    dn = 'd%d/%s' % (remote, nm.replace('/', '_'))
                    lines.append("clicopy src=s:i1/%s dest=d%d:%s from=%s until=%s archive=%d copynan=1 m=%d x=%08x layout=%s%s" % (
                        nm, remote, nm.replace('/', '_'), frm, until, arch, m, xff, lay_csv(layout), r))
                    observe_all(lines, dn, layout)
                elif kind == 'globdiff':
                    pat = rnd.pick(['i1/*.wsp', 'i*/a.wsp', 'zz/*.wsp', 'i1/*+*.wsp', 'i1/*', 'i1/s*', 'i1/[', 'i[/a.wsp', 'i1/a[b-.wsp'])
                    if remote == 0:
                        keep = "clidiff src=s:%s dest=s: from=%s until=%s archive=%d remote=0" % (pat, frm, until, arch)
                        lines.append(keep)
                    else:
                        lines.append(keep.replace('dest=s:', 'dest=ROOT:').replace(' remote=0', ' remote=1'))
                elif kind == 'http' and remote == 1:
                    # a query with an explicit clock in the past: the server must use the client's clock
                    past = rnd.randint(1, 40)
                    lines.append("clihttpview file=s/i1/%s retention=%d from=%s until=%s now=@-%d" % (nm, arch, '@-%d' % (past + rnd.randint(0, 30)), '@-%d' % past, past))
        # the handler on the raw query (Model/Server.v handle_view): well-formed requests in any
        # parameter order, duplicated and missing parameters, every malformed value
        import urllib.parse as up
        for _ in range(rnd.randint(3, 6)):
            nm = rnd.pick(names + ['nope.wsp'])
            past = rnd.randint(0, 40)
            a, b = past + rnd.randint(0, 30), past
            params = [('file', up.quote_plus('CASEDIR/s/i1/' + nm, safe='/~')), ('retention', str(rnd.pick([-1, -1] + list(range(k)) + [k]))),
                      ('from', 'TS(@-%d)' % a), ('until', 'TS(@-%d)' % b), ('now', 'TS(@-%d)' % rnd.pick([0, 0, past]))]
            kind = rnd.pick(['good', 'good', 'good', 'shuffled', 'dup', 'missing', 'badvalue', 'syntax'])
            if kind in ('shuffled', 'dup', 'missing', 'badvalue', 'syntax'):
                rnd.shuffle(params)
            if kind == 'dup':
                j = rnd.randrange(len(params))
                key = params[j][0]
                other = {'file': 'CASEDIR/s/i2/a.wsp', 'retention': '0', 'from': 'TS(@-3)', 'until': 'TS(@-1)', 'now': 'TS(@-1)'}[key]
                params.insert(rnd.randint(j + 1, len(params)), (key, other))       # the first one counts
            if kind == 'missing':
                del params[rnd.randrange(len(params))]
            if kind == 'badvalue':
                j = rnd.randrange(len(params))
                key = params[j][0]
                bad = {'file': [''], 'retention': ['', '+1', '1.5', '0x1', '99999999999999999999', '%31', '-', '1_0', '01', '-0', '9223372036854775807', '-9223372036854775809'],
                       'from': ['', '2020-01-01', 'TS(@-5)x', '2020-13-01T00:00:00Z', '1700000000', 'TS(@-5).000', 'TS(@-5).5'],
                       'until': ['', 'x', 'TS(@-5)Z'], 'now': ['', '0', 'now']}[key]
                params[j] = (key, rnd.pick(bad))
            q = '&'.join('%s=%s' % kv for kv in params)
            if kind == 'syntax':
                q = rnd.pick([q.replace('&', ';', 1), q + '&%zz=1', q + '&x=%', '&&' + q + '&', q + '&novalue', q.replace('=', '%3D', 1), q + '&a=b=c', q.replace('file=', 'FILE='), '', q + '&%66ile=zzz'])
            lines.append('clirawview q=%s' % (q or '-'))
            if rnd.chance(0.5):
                lines.append('clirawview q=%s' % (q or '-'))          # the same request again: the same answer
            if rnd.chance(0.4):
                # the raw dump endpoint reads file and retention only (the other parameters are ignored)
                lines.append('clirawdump q=%s' % (re.sub(r'TS\([^)]*\)', 'x', q) or '-'))
        for _ in range(rnd.randint(2, 4)):
            # the /sum handler on raw queries: well-formed ones in any parameter order, duplicated, missing and
            # malformed parameters, patterns that match several files, one file, nothing
            past = rnd.randint(0, 40)
            params = [('item', 'CASEDIR.s.' + rnd.pick(['i1', 'i1', 'i2', 'zz'])), ('pattern', up.quote_plus(rnd.pick(['*.wsp', 'a.wsp', names[0], 'q*.wsp', '*']), safe='*~')),
                      ('retention', str(rnd.pick([-1, -1] + list(range(k)) + [k]))),
                      ('from', 'TS(@-%d)' % (past + rnd.randint(0, 30))), ('until', 'TS(@-%d)' % past), ('now', 'TS(@-%d)' % rnd.pick([0, 0, past]))]
            kind = rnd.pick(['good', 'good', 'good', 'shuffled', 'dup', 'missing', 'badvalue'])
            if kind != 'good':
                rnd.shuffle(params)
            if kind == 'dup':
                j = rnd.randrange(len(params))
                key = params[j][0]
                other = {'item': 'CASEDIR.s.i2', 'pattern': 'a.wsp', 'retention': '0', 'from': 'TS(@-3)', 'until': 'TS(@-1)', 'now': 'TS(@-1)'}[key]
                params.insert(rnd.randint(j + 1, len(params)), (key, other))
            if kind == 'missing':
                del params[rnd.randrange(len(params))]
            if kind == 'badvalue':
                j = rnd.randrange(len(params))
                key = params[j][0]
                bad = {'item': [''], 'pattern': [''], 'retention': ['', '+1', '1.5', '0x1', '99999999999999999999', '-'],
                       'from': ['', '2020-01-01', 'TS(@-5)x', '1700000000'], 'until': ['', 'x', 'TS(@-5)Z'], 'now': ['', '0', 'now']}[key]
                params[j] = (key, rnd.pick(bad))
            q = '&'.join('%s=%s' % kv for kv in params)
            lines.append('clirawsum q=%s' % (q or '-'))
            if rnd.chance(0.3):
                lines.append('clirawsum q=%s' % (q or '-'))
        if rnd.chance(0.6):
            # other spellings of a name ("." and ".." elements, doubled separators), among them names that
            # leave the base directory through "..": the file is the one the cleaned path names, whether the
            # base is a directory, the URL of a server serving a directory above it, or (deep=1) the URL of a
            # server serving exactly that directory
            lines += fill_ops(rnd, 'out/x.wsp', layout, m, xff, density=0.5)
            nm0 = names[0]
            for _ in range(rnd.randint(2, 4)):
                sp = rnd.pick(['../out/x.wsp', 'i1/../../out/x.wsp', './../out/x.wsp', '../out/../out/x.wsp', '../out/nope.wsp', 'i1/./' + nm0, 'i1//' + nm0,
                               'i2/../i1/' + nm0, './i1/' + nm0, 'i1/../i1/./' + nm0, '../s/i1/' + nm0, 'i1/sub/../' + nm0, 'zz/../i1/' + nm0])
                wk, frm, until = window(rnd, layout)
                arch = rnd.pick([-1] + list(range(k)))
                kind = rnd.pick(['view', 'view', 'viewraw', 'diffsrc', 'copysrc'])
                for mode, r in enumerate(['', ' remote=1', ' remote=1 deep=1']):
                    if kind == 'view':
                        lines.append("cliview src=s:%s from=%s until=%s archive=%d header=1%s" % (sp, frm, until, arch, r))
                    elif kind == 'viewraw':
                        lines.append("cliviewraw src=s:%s from=%s until=%s archive=%d header=1 sort=1%s" % (sp, frm, until, arch, r))
                    elif kind == 'diffsrc':
                        lines.append("clidiff src=s:%s dest=s:i2/a.wsp from=%s until=%s archive=%d%s" % (sp, frm, until, arch, r))
                    else:
                        lines.append("clicopy src=s:%s dest=e%d:y.wsp from=%s until=%s archive=%d copynan=1 m=%d x=%08x layout=%s%s" % (
                            sp, mode, frm, until, arch, m, xff, lay_csv(layout), r))
                        observe_all(lines, 'e%d/y.wsp' % mode, layout)
        for _ in range(6):
            # the resolution itself (Model/Path.v against path.Clean, filepath.Clean, filepath.Join)
            ps = ''.join(rnd.pick('ab../+/.') for _ in range(rnd.randint(0, 12)))
            lines.append('pathclean %s' % (ps.encode().hex() or '-'))
        for _ in range(3):
            els = [''.join(rnd.pick('ab../') for _ in range(rnd.randint(0, 6))) for _ in range(rnd.randint(1, 4))]
            lines.append('pathjoin %s' % ' '.join((e.encode().hex() or '-') for e in els))
        for _ in range(2):
            nm = rnd.pick(names + ['sub dir/x y.wsp'.replace(' ', '_'), 'ü.wsp'])
            lines.append('cliquerycap src=%s archive=%d from=%s until=%s' % (('i1/' + nm).encode('utf-8').hex(), rnd.pick([-1, 0, 1, 7, -5, 2 ** 40]),
                                                                            rnd.pick(['0', '@-30', '1']), rnd.pick(['0', '@-3', '@+5'])))
        cases.append({'id': 'c12-%d' % c, 'lines': lines, 'tags': {'layout': lname}})
    # files longer than their header requires (padding behind the last archive: Open accepts them): every read shows
    # the archives the header announces, through a server as through the directory
    from gens_codec import image_py, hx as _hx
    for j in range(2):
        lay = [(1, 6), (3, 5)] if j == 0 else [(2, 7)]
        sl = {a_: [(1600000000 + q * s_, fbits(float(10 * a_ + q))) for q in range(n_)] for a_, (s_, n_) in enumerate(lay)}
        pad = bytes(rnd.getrandbits(8) for _ in range(rnd.pick([12, 24, 36, 40]))) if rnd.chance(0.6) else bytes(rnd.pick([12, 36, 4096]))
        pl = ["rawfile s/pad.wsp %s" % _hx(image_py(2, 0x3f000000, lay, sl) + pad)]
        for rem in (1, 0):
            pl.append("cliviewraw src=s:pad.wsp from=0 until=0 archive=-1 header=1 sort=0 remote=%d" % rem)
            pl.append("cliviewraw src=s:pad.wsp from=0 until=0 archive=%d header=0 sort=1 remote=%d" % (len(lay) - 1, rem))
            pl.append("cliview src=s:pad.wsp from=0 until=0 archive=-1 header=1 remote=%d" % rem)
        cases.append({'id': 'c12-padded-%d' % j, 'lines': pl, 'tags': {'layout': 'padded'}})
    cases.append({'id': 'c12-newline', 'lines': ['clinewline'], 'tags': {'layout': 'newline_in_name'}})
    cases.append({'id': 'c12-wsitem', 'lines': ['cliwsitem'], 'tags': {'layout': 'blank_in_item_name'}})
    # the same requests in flight at once (the served file is kept locked while they arrive), among
    # them the same sum and view asked with different clocks: each is answered as it is alone
    for j in range(2):
        lay = CLI_LAYOUTS[rnd.pick(['two_1s', 'three_2s'])]
        fl = []
        for q in range(3):
            fl += fill_ops(rnd, 's/i1/f%d.wsp' % q, lay, 2, 0x3f000000, density=0.7, inconsistent=False)
        fl.append('conhttp s/i1/f0.wsp %d @' % rnd.randint(3, 6))
        cases.append({'id': 'c12-inflight-%d' % j, 'lines': fl, 'tags': {'layout': 'inflight'}})
    # a base directory that is a symbolic link (to a directory whose own name has pattern characters): the base is
    # the name the user gave -- for the commands and for a server started on it alike
    ll = ["dirlink q[1] lnk"]
    lay = CLI_LAYOUTS[rnd.pick(['two_1s', 'single'])]
    for nm in ('lnk/i1/a.wsp', 'lnk/i1/b.wsp', 'lnk/i2/a.wsp'):
        ll += fill_ops(rnd, nm, lay, 2, 0x3f000000, density=0.6, inconsistent=False)
    for r in ('', ' remote=1 deep=1'):
        ll.append("clisum base=lnk item=i* src=*.wsp from=0 until=0 archive=-1 header=1" + r)
        ll.append("clidiff src=lnk:i1/*.wsp dest=lnk: from=0 until=0 archive=-1" + r)
        ll.append("cliview src=lnk:i2/a.wsp from=0 until=0 archive=-1 header=1" + r)
    cases.append({'id': 'c12-linkbase', 'lines': ll, 'tags': {'layout': 'link_base'}})
    # a file the user may read but not write: the directory and a server on it (run by that user) give the same
    # answer -- whatever it is
    ll = []
    for nm in ('s/a.wsp', 's/i1/b.wsp'):
        ll += fill_ops(rnd, nm, CLI_LAYOUTS['two_1s'], 2, 0x3f000000, density=0.6, inconsistent=False)
    ll += ["cliroread src=s:a.wsp from=0 until=0 archive=-1", "cliroread src=s:i1/b.wsp from=0 until=0 archive=%d" % rnd.pick([0, 1, 5])]
    cases.append({'id': 'c12-readonly', 'lines': ll, 'tags': {'layout': 'unwritable_file'}})
    # a glob that matches a round number of names (1000; thorough: other page-like counts): the list a server
    # sends is the list the directory gives, however many names it has
    for cnt in ([1000] if not thorough else [1000, 500, 512, 1024, 2000, 100, 256]):
        ml = []
        for i in range(cnt):
            nm = 'g/f%04d.wsp' % i
            ml += ["create %s 1 1 2 m 2 x 00000000" % nm, "sync %s" % nm, "drop %s" % nm]
        ml += ["clidiff src=g:*.wsp dest=g: from=0 until=0 archive=-1 remote=0", "clidiff src=g:*.wsp dest=ROOT: from=0 until=0 archive=-1 remote=1"]
        cases.append({'id': 'c12-names-%d' % cnt, 'lines': ml, 'tags': {'layout': 'names%d' % cnt}})
    # answers of more than a megabyte (a long archive viewed over its whole retention, its raw dump)
    N = 140000 if not thorough else 200000
    offs = sorted(set([0, 1, 2, N - 2, N - 1, N // 2] + [rnd.randrange(N) for _ in range(5)]))
    big = ["create s/big.wsp 1 1 %d m 2 x 00000000" % N,
           "many s/big.wsp 0 @ %d %s" % (len(offs), " ".join("@-%d %016x" % (o, cvalue(rnd, False)) for o in offs)), "sync s/big.wsp", "drop s/big.wsp"]
    big.append("cliview src=s:big.wsp from=0 until=0 archive=0 header=1 remote=1")
    big.append("cliviewraw src=s:big.wsp from=0 until=0 archive=0 header=0 sort=0 remote=1")
    # a client that resets its connection while the big answer is on its way, then ordinary requests
    big += fill_ops(rnd, 's/small.wsp', [(1, 20), (5, 12)], 2, 0x3f000000, density=0.6)
    for path in ('view-raw', 'view'):
        big += ["cliabort file=s/big.wsp path=%s" % path, "cliview src=s:small.wsp from=0 until=0 archive=-1 header=1 remote=1",
                "cliviewraw src=s:small.wsp from=0 until=0 archive=-1 header=1 sort=1 remote=1"]
    cases.append({'id': 'c12-big', 'lines': big, 'tags': {'layout': 'big%d' % N}})
    # the query string itself (net/url as client and handler use it): escape, unescape, parse
    import urllib.parse
    special = b' +&=;%#/?:@~-_.\x00\xff\xe3\x81\x82\n"<>'
    def rbytes(k):
        return bytes(rnd.pick(list(special)) if rnd.chance(0.5) else rnd.randrange(256) for _ in range(k))
    for c in range(max(4, n // 4)):
        lines = []
        for _ in range(6):
            lines.append('qesc %s' % (rbytes(rnd.randint(0, 16)).hex() or '-'))
        for _ in range(6):
            u = ''.join(rnd.pick('%%%+ab0Z9fFgG~&=; /') for _ in range(rnd.randint(0, 8))).encode()
            lines.append('qunesc %s' % (u.hex() or '-'))
        for _ in range(5):
            kvs = [(rnd.pick(['file', 'retention', 'from', 'until', 'now', 'item', 'pattern', 'x_1', 'a.b', 'k~']), rbytes(rnd.randint(0, 10)))
                   for _ in range(rnd.randint(1, 5))]
            q = '&'.join('%s=%s' % (k, urllib.parse.quote_plus(v, safe='~' if rnd.chance(0.5) else '')) for k, v in kvs).encode()
            r = rnd.random()
            if r < 0.5:
                pass
            else:
                q = bytearray(q)
                for _m in range(rnd.randint(1, 3)):
                    pos = rnd.randrange(len(q) + 1)
                    q[pos:pos] = rnd.pick([b';', b'%zz', b'%4', b'&&', b'=', b'&', b'+', b'%2B', b'%', b'#'])
                q = bytes(q)
            lines.append('qparse %s' % (q.hex() or '-'))
        cases.append({'id': 'c12-q%d' % c, 'lines': lines, 'tags': {'layout': 'query'}})
    return cases


GENS['C12'] = gen_c12



def gen_c16(rnd, n, thorough=False):
    """The matrix subcommand x archive selection x window x fault; every cell is run through the real
    command struct, the model predicts ok / diff / notexist / err (never panic) and the effect."""
    cases = []
    for c in range(n):
        lname = rnd.pick(['two_1s', 'two_2s', 'three_2s', 'single', 'big', 'big'])
        layout = CLI_LAYOUTS[lname]
        k = len(layout)
        m, xff = rnd.pick(METHODS), 0x3f000000
        dense = lname == 'big'
        lines = fill_ops(rnd, 's/i1/a.wsp', layout, m, xff, density=1.0 if dense else 0.5, inconsistent=not dense)
        lines += fill_ops(rnd, 's/i1/b.wsp', layout, m, xff, density=0.5, inconsistent=False)
        oddcount = rnd.chance(0.3)
        if oddcount:
            # an item whose files differ in the number of points only: never a sum, whatever the window
            lines += fill_ops(rnd, 's/i3/a.wsp', layout, m, xff, density=0.5, inconsistent=False)
            lines += fill_ops(rnd, 's/i3/b.wsp', [(s_, nn + rnd.pick([1, 7])) for s_, nn in layout], m, xff, density=0.5, inconsistent=False)
            for _q in range(2):
                wq = rnd.pick([('@-%d' % rnd.randint(2, layout[0][0] * layout[0][1] - 1), '0'), ('@+5', '@+9'), ('0', '0'), ('@-3', '@-1')])
                lines.append("clisum base=s item=i3 src=*.wsp from=%s until=%s archive=%d header=1" % (wq[0], wq[1], rnd.pick([-1, 0])))
        stray = rnd.chance(0.5)
        if stray:
            # a plain file next to the item directories: an item pattern that matches it names an item without files
            lines += fill_ops(rnd, 's/stray', layout, m, xff, density=0.3, inconsistent=False)
            lines += ["create e/stray/sum.wsp %s m %d x %08x" % (fmt_layout(layout), m, xff), "sync e/stray/sum.wsp", "drop e/stray/sum.wsp"]
        srckind = rnd.pick(['ok', 'ok', 'ok', 'missing', 'corrupt', 'corrupt_count'])
        src = {'ok': 'i1/a.wsp', 'missing': 'i1/none.wsp', 'corrupt': 'i1/zero.wsp', 'corrupt_count': 'i1/zero.wsp'}[srckind]
        if srckind == 'corrupt':
            lines += ["create s/i1/zero.wsp %s m %d x %08x" % (fmt_layout(layout), m, xff), "drop s/i1/zero.wsp"]
        if srckind == 'corrupt_count':
            # a damaged file announcing more archives than fit one memory page, and long enough to hold them
            from gens_codec import be32, hx
            cnt = rnd.pick([341, 342, 400, 1365, 1366, 5462, 340])
            lines += ["rawfile s/i1/zero.wsp %s" % hx(be32(m) + be32(rnd.getrandbits(31)) + be32(xff) + be32(cnt) + bytes(12 * cnt + rnd.pick([0, 100])))]
            srckind = 'corrupt'

        destkind = rnd.pick(['missing', 'fresh', 'filled', 'mismatch'])
        if destkind == 'fresh':
            lines += ["create d/a.wsp %s m %d x %08x" % (fmt_layout(layout), m, xff), "sync d/a.wsp", "drop d/a.wsp"]
        elif destkind == 'filled':
            lines += fill_ops(rnd, 'd/a.wsp', layout, m, xff, density=0.4, inconsistent=False)
        elif destkind == 'mismatch':
            lines += fill_ops(rnd, 'd/a.wsp', [(s, nn + 2) for s, nn in layout], m, xff, density=0.4, inconsistent=False)
        sum_dest_exists = rnd.chance(0.5)
        sum_dest_corrupt = not sum_dest_exists and rnd.chance(0.3)
        if sum_dest_corrupt:
            # it exists but its header never reached the disk: it cannot be opened (an error, no panic)
            lines += ["create e/i1/sum.wsp %s m %d x %08x" % (fmt_layout(layout), m, xff), "drop e/i1/sum.wsp"]
        if sum_dest_exists:
            lines += ["create e/i1/sum.wsp %s m %d x %08x" % (fmt_layout(layout), m, xff), "sync e/i1/sum.wsp", "drop e/i1/sum.wsp"]
        hist = {}
        written = {'sumcopy': sum_dest_exists and False}
        for _ in range(rnd.randint(4, 8)):
            sub = rnd.pick(['view', 'viewraw', 'diff', 'copy', 'sum', 'sumcopy', 'sumdiff', 'generate'])
            wk, frm, until = window(rnd, layout)
            archsel = rnd.pick(['all', 'each', 'out_of_range'])
            arch = {'all': -1, 'each': rnd.randrange(k), 'out_of_range': rnd.pick([k, k + 1, -2])}[archsel]
            fault = rnd.pick(['none', 'none', 'textout_bad', 'textout_full', 'textout_discard'])
            to = {'none': 'file', 'textout_bad': 'bad', 'textout_full': 'full', 'textout_discard': 'discard'}[fault]
            if (srckind != 'ok' or destkind == 'mismatch') and archsel == 'out_of_range':
                arch = -1            # two different failures of the two concurrent reads: not determined
            if archsel == 'out_of_range' and ((sub == 'diff' and destkind == 'missing') or (sub == 'sumdiff' and not sum_dest_exists)):
                arch = -1            # a missing destination and a failing source read: whichever fails first
            if sub == 'diff' and srckind == 'corrupt' and destkind == 'missing':
                sub = 'view'         # an unreadable source and a missing destination: whichever fails first
            # a writing command whose report cannot be written (or opened) reports an error; whether it had
            # already written its destination by then is not promised by any property (it depends on how much
            # of the report is buffered): such commands get a destination of their own that nothing reads later
            faulty_write = sub in ('copy', 'sumcopy') and to in ('bad', 'full')
            key = '%s/%s/%s' % (sub, archsel, fault)
            hist[sub] = hist.get(sub, 0) + 1
            t = " textout=%s" % to
            if sub == 'view':
                lines.append("cliview src=s:%s from=%s until=%s archive=%d header=1%s" % (src, frm, until, arch, t))
            elif sub == 'viewraw':
                lines.append("cliviewraw src=s:%s from=%s until=%s archive=%d header=1 sort=%d%s" % (src, frm, until, arch, rnd.pick([0, 1]), t))
            elif sub == 'diff':
                lines.append("clidiff src=s:%s dest=d:a.wsp from=%s until=%s archive=%d%s" % (src, frm, until, arch, t))
                if to == 'file' and (frm == '0') == (until == '0') and not frm.startswith('@+') and rnd.chance(0.5):
                    # the same invocation as a process: the exit status is the report
                    lines.append("cliexit src=s:%s dest=d:a.wsp from=%s until=%s archive=%d" % (src, frm, until, arch))
            elif sub == 'copy' and faulty_write:
                lines.append("clicopy src=s:%s dest=dt%d:a.wsp from=%s until=%s archive=%d copynan=%d m=%d x=%08x layout=%s%s" % (
                    src, len(lines), frm, until, arch, rnd.pick([0, 1]), m, xff, lay_csv(layout), t))
            elif sub == 'copy':
                lines += ["snap d/a.wsp", "clicopy src=s:%s dest=d:a.wsp from=%s until=%s archive=%d copynan=%d m=%d x=%08x layout=%s%s" % (
                    src, frm, until, arch, rnd.pick([0, 1]), m, xff, lay_csv(layout), t), "disk d/a.wsp"]
                observe_all(lines, 'd/a.wsp', layout)
            elif sub == 'sum':
                lines.append("clisum base=s item=%s src=%s from=%s until=%s archive=%d header=1%s" % (rnd.pick(['i1', 'i*', 'zz'] + (['st*', 'stray', 's*'] if stray else [])), rnd.pick(['*.wsp', 'a.wsp', 'q*.wsp']), frm, until, arch, t))
            elif sub == 'sumcopy' and faulty_write:
                lines.append("clisumcopy base=s item=i1 src=[ab].wsp destbase=et%d dest=sum.wsp from=%s until=%s archive=%d m=%d x=%08x layout=%s%s" % (
                    len(lines), frm, until, arch, m, xff, lay_csv(layout), t))
            elif sub == 'sumcopy':
                lines += ["snap e/i1/sum.wsp", "clisumcopy base=s item=%s src=[ab].wsp destbase=e dest=sum.wsp from=%s until=%s archive=%d m=%d x=%08x layout=%s%s" % (
                    'st*' if stray and archsel != 'out_of_range' and rnd.chance(0.25) else 'i1', frm, until, arch, m, xff, lay_csv(layout), t), "disk e/i1/sum.wsp"]
                observe_all(lines, 'e/i1/sum.wsp', layout)
            elif sub == 'sumdiff':
                lines.append("clisumdiff base=s item=%s src=[ab].wsp destbase=e dest=sum.wsp from=%s until=%s archive=%d%s" % ('st*' if stray and archsel != 'out_of_range' and rnd.chance(0.25) else 'i1', frm, until, arch, t))
            else:
                gname = 'g/x%d.wsp' % len(lines)
                glay = [(1, 6), (3, 4)] if to != 'full' else [(1, 300), (5, 100)]
                lines.append("cligenerate dest=%s m=%d x=%08x layout=%s max=%d fill=%d%s" % (gname, m, xff, lay_csv(glay), rnd.pick([10, 10, 10, 0, -1, -7]), 1 if to == 'full' else rnd.pick([1, 1, 0]), t))
                if to not in ('bad', 'full'):
                    lines.append("hdrof %s" % gname)          # (what a generate whose report cannot be written leaves behind is not promised)
        cases.append({'id': 'c16-%d' % c, 'lines': lines, 'tags': {'layout': lname, 'src': srckind, 'dest': destkind, 'sub': hist}})
        if c == 1:
            cases.append(many_files_case(rnd, 'c16-%d-many' % c, ['sum', 'sumcopy', 'sumdiff']))     # (sum-diff after sum-copy: with a missing destination AND an unreadable source, which of the two concurrent failures is reported is not determined)
    # one archive selected, and destinations whose layout differs from the sources' in the NUMBER of archives only
    # (the selected archive is defined alike on both sides): unequal layouts are an error for diff and sum-diff,
    # never a panic and never a verdict
    for j, (lay_s, lay_d) in enumerate([([(1, 20), (5, 12), (20, 6)], [(1, 20), (5, 12)]), ([(1, 20), (5, 12)], [(1, 20), (5, 12), (20, 6)]),
                                        ([(2, 15), (10, 9)], [(2, 15)])]):
        pl = fill_ops(rnd, 's/i1/a.wsp', lay_s, 2, 0x3f000000, density=0.6, inconsistent=False)
        pl += fill_ops(rnd, 's/i1/b.wsp', lay_s, 2, 0x3f000000, density=0.6, inconsistent=False)
        pl += fill_ops(rnd, 'd/a.wsp', lay_d, 2, 0x3f000000, density=0.6, inconsistent=False)
        pl += fill_ops(rnd, 'e/i1/sum.wsp', lay_d, 2, 0x3f000000, density=0.6, inconsistent=False)
        for arch in range(min(len(lay_s), len(lay_d))):
            pl.append("clisumdiff base=s item=i1 src=[ab].wsp destbase=e dest=sum.wsp from=0 until=0 archive=%d textout=%s" % (arch, rnd.pick(['file', 'discard'])))
            pl.append("clidiff src=s:i1/a.wsp dest=d:a.wsp from=0 until=0 archive=%d textout=file" % arch)
        pl.append("clisumdiff base=s item=i1 src=[ab].wsp destbase=e dest=sum.wsp from=0 until=0 archive=-1 textout=file")
        cases.append({'id': 'c16-prefixlayout-%d' % j, 'lines': pl, 'tags': {'layout': 'prefix', 'src': 'ok', 'dest': 'mismatch', 'sub': {'sumdiff': len(lay_d) + 1, 'diff': len(lay_d)}}})
    # retention definitions with a zero step or a zero retention, for every command that takes -retentions: a usage
    # error, never a panic
    ll = []
    for rt in ['0s:1d', '0:60', '0s:0s', '1s:0s', '1s:1m,0s:1h', '0m:1h', '1s:1m,1m:0h']:
        ll.append('cliargs generate %s' % ' '.join(a.encode().hex() for a in ['-dest', 'g.wsp', '-agg-method', 'sum', '-retentions', rt]))
        ll.append('cliargs copy %s' % ' '.join(a.encode().hex() for a in ['-src-base', '/data', '-src', 'a.wsp', '-dest-base', '/d', '-agg-method', 'sum', '-retentions', rt]))
        ll.append('cliargs sum-copy %s' % ' '.join(a.encode().hex() for a in ['-item', 'i*', '-src-base', '/data', '-src', '*.wsp', '-dest-base', '/d', '-dest', 'sum.wsp', '-agg-method', 'sum', '-retentions', rt]))
    cases.append({'id': 'c16-zeroprecision', 'lines': ll, 'tags': {'layout': 'args', 'src': 'ok', 'dest': 'missing', 'sub': {'args': len(ll)}}})
    # the source AND the existing destination are rejected by Open (two failures: which one is reported is not
    # compared): the command returns an error -- it does not panic
    for j in range(2):
        layout = CLI_LAYOUTS['two_1s']
        bl = []
        for nm in ('s/i1/a.wsp', 'd/a.wsp', 'e/i1/sum.wsp'):
            bl += ["create %s %s m 2 x 3f000000" % (nm, fmt_layout(layout)), "drop %s" % nm]
        bl += ["clicopy src=s:i1/a.wsp dest=d:a.wsp from=0 until=0 archive=-1 copynan=0 m=2 x=3f000000 layout=%s nostatus=1 textout=%s" % (lay_csv(layout), rnd.pick(['file', 'discard'])),
               "clisumcopy base=s item=i1 src=*.wsp destbase=e dest=sum.wsp from=0 until=0 archive=-1 m=2 x=3f000000 layout=%s nostatus=1" % lay_csv(layout),
               "cliview src=s:i1/a.wsp from=0 until=0 archive=-1 header=1"]
        cases.append({'id': 'c16-bothbad-%d' % j, 'lines': bl, 'tags': {'layout': 'two_1s', 'src': 'corrupt', 'dest': 'corrupt', 'sub': {'copy': 1, 'sumcopy': 1}}})
    # generate with a bound close to 2^31 and coarser archives (the bound is scaled by the step)
    for mx in (2000000000, 1073741824, 30000):
        gl = rnd.pick([[(1, 10), (2, 6)], [(1, 8), (4, 4), (16, 3)], [(2, 6), (600, 3)]]) if mx > 30000 else [(1, 12), (86400, 3)]
        cases.append({'id': 'c16-genmax-%d' % mx, 'lines': ["cligenerate dest=g/big%d.wsp m=2 x=3f000000 layout=%s max=%d fill=1" % (mx, lay_csv(gl), mx), "hdrof g/big%d.wsp" % mx],
                      'tags': {'layout': 'gen', 'src': 'ok', 'dest': 'missing', 'sub': {'generate': 1}}})
    # destinations the user may read but not write, differing from what would be copied: no run reports success
    # without the work done -- copy and sum-copy report the error, the files are as they were
    for j in range(2):
        lname = rnd.pick(['two_1s', 'three_2s', 'single'])
        layout = CLI_LAYOUTS[lname]
        rl = fill_ops(rnd, 's/i1/a.wsp', layout, 2, 0x3f000000, density=1.0, inconsistent=False)
        rl += fill_ops(rnd, 's/i1/b.wsp', layout, 2, 0x3f000000, density=1.0, inconsistent=False)
        for dn in ('d/a.wsp', 'e/i1/sum.wsp'):
            rl += ["create %s %s m 2 x 3f000000" % (dn, fmt_layout(layout)), "sync %s" % dn, "drop %s" % dn, "snap %s" % dn]
        rl += ["clicopy src=s:i1/a.wsp dest=d:a.wsp from=0 until=0 archive=%d copynan=0 m=2 x=3f000000 layout=%s textout=discard ro=d/a.wsp" % (rnd.pick([-1, 0]), lay_csv(layout)),
               "disk d/a.wsp",
               "clisumcopy base=s item=i1 src=*.wsp destbase=e dest=sum.wsp from=0 until=0 archive=%d m=2 x=3f000000 layout=%s textout=discard ro=e/i1/sum.wsp" % (rnd.pick([-1, 0]), lay_csv(layout)),
               "disk e/i1/sum.wsp"]
        observe_all(rl, 'd/a.wsp', layout)
        observe_all(rl, 'e/i1/sum.wsp', layout)
        cases.append({'id': 'c16-readonly-%d' % j, 'lines': rl, 'tags': {'layout': lname, 'src': 'ok', 'dest': 'unwritable', 'sub': {'copy': 1, 'sumcopy': 1}}})
    # copy over three archives where the middle one needs no write once the finest is written while the
    # coarsest still differs: success means all of them were brought in line
    for j in range(2):
        lname = rnd.pick(['three_1s', 'three_2s', 'four'])
        layout = CLI_LAYOUTS[lname]
        m = rnd.pick(METHODS)
        lines, cdst = cascade_pair(rnd, 's/a.wsp', 'd/a.wsp', layout, m, 0x3f000000)
        lines += cdst
        if j == 1:
            # ... and a difference ONLY in the coarsest archive (the finer ones are equal and inside the window)
            lines = fill_ops(rnd, 's/a.wsp', layout, m, 0x3f000000, density=1.0, only=[0, len(layout) - 1])
            cp = copy_of(lines, 's/a.wsp', 'd/a.wsp')
            S, N = layout[-1]
            extra = [("@-%d" % (rnd.randrange(N) * S), fbits(float(rnd.randint(200, 300)))) for _ in range(3)]
            lines = lines[:-2] + ["many s/a.wsp %d @ %d %s" % (len(layout) - 1, len(extra), " ".join("%s %016x" % tv for tv in extra))] + lines[-2:] + cp
        opt = "src=s:a.wsp dest=d:a.wsp from=0 until=0 archive=-1 copynan=%d m=%d x=3f000000 layout=%s" % (rnd.pick([0, 1]), m, lay_csv(layout))
        lines += ["clicopy " + opt]
        observe_all(lines, 'd/a.wsp', layout)
        lines += ["clidiff src=s:a.wsp dest=d:a.wsp from=0 until=0 archive=-1"]
        cases.append({'id': 'c16-cascade-%d' % j, 'lines': lines, 'tags': {'layout': lname, 'src': 'ok', 'dest': 'cascade', 'sub': {'copy': 1, 'diff': 1}}})
    # diff over several files: one differing (or missing) pair anywhere makes the whole run report it
    for j in range(2):
        layout = CLI_LAYOUTS[rnd.pick(['two_1s', 'single'])]
        gl = []
        names = ['x/a.wsp', 'y/a.wsp', 'y/b.wsp']
        odd = names[j]                       # the first or the middle one
        for nm in names:
            f = fill_ops(rnd, 'g/' + nm, layout, 2, 0x3f000000, density=0.5, inconsistent=False)
            gl += f
            cp = copy_of(f, 'g/' + nm, 'h/' + nm)
            if nm == odd:
                if rnd.chance(0.5):
                    cp = cp[:-2] + ["many h/%s 0 @ 1 @-%d %016x" % (nm, layout[0][0], fbits(555.0))] + cp[-2:]
                else:
                    cp = []                  # missing on the destination side
            gl += cp
        gl.append("clidiff src=g:*/*.wsp dest=h: from=0 until=0 archive=-1")
        gl.append("cliexit src=g:*/*.wsp dest=h: from=0 until=0 archive=-1")
        cases.append({'id': 'c16-globdiff-%d' % j, 'lines': gl, 'tags': {'layout': 'glob', 'src': 'ok', 'dest': 'glob', 'sub': {'diff': 2}}})
    # a glob copy over a source that is being written: the window of every matched file ends at ITS OWN clock
    # (success means every file was copied up to the moment it was handled)
    l2 = CLI_LAYOUTS[rnd.pick(['two_1s', 'three_1s', 'single'])]
    gl = []
    for nm in ('g/y/a.wsp', 'g/y/b.wsp', 'h/y/a.wsp'):
        gl += fill_ops(rnd, nm, l2, 2, 0x3f000000, density=0.4, inconsistent=False)
    gl += ["clicopy src=g:y/*.wsp dest=h: from=0 until=0 archive=-1 copynan=0 m=2 x=3f000000 layout=%s live=g/y/b.wsp hold=h/y/a.wsp" % lay_csv(l2)]
    observe_all(gl, 'h/y/b.wsp', l2, until='@+9', now='@+9')
    gl.append("clidiff src=g:y/*.wsp dest=h: from=0 until=0 archive=-1")
    cases.append({'id': 'c16-live', 'lines': gl, 'tags': {'layout': 'live', 'src': 'ok', 'dest': 'glob_live_source', 'sub': {'copy': 1, 'diff': 1}}})
    # every invocation starts at the command line: Parse of each subcommand (Model/Args.v)
    cases += gen_args(rnd, max(n // 4, 10))
    return cases


GENS['C16'] = gen_c16


def gen_c05_cli(rnd, n, thorough=False):
    """A CLI write that is refused leaves an existing destination untouched: copy / sum-copy onto a
    destination whose layout differs (C08: reported without writing anything), small and multi-page files.
    (Until round 12 these cases used a report that cannot be written, -text-out /dev/full; whether the
    destination has been written by the time the report fails depends on the size of the report buffer,
    which no property fixes.)"""
    cases = []
    for c in range(n):
        layout = CLI_LAYOUTS['big']
        other = rnd.pick([[(s_, nn + 1) for s_, nn in layout], [(s_ * 2, nn) for s_, nn in layout], layout[:-1]])
        m, xff = rnd.pick(METHODS), 0x3f000000
        lines = fill_ops(rnd, 's/i1/a.wsp', layout, m, xff, density=1.0, inconsistent=False)
        lines += fill_ops(rnd, 'd/a.wsp', other, m, xff, density=rnd.pick([0.0, 0.3]), inconsistent=False)
        lines += copy_of([l for l in lines if ' d/a.wsp' in l], 'd/a.wsp', 'e/i1/sum.wsp')
        if rnd.chance(0.5):
            lines += ["snap d/a.wsp", "clicopy src=s:i1/a.wsp dest=d:a.wsp from=0 until=0 archive=-1 copynan=%d m=%d x=%08x layout=%s" % (
                rnd.pick([0, 1]), m, xff, lay_csv(layout)), "disk d/a.wsp"]
            observe_all(lines, 'd/a.wsp', other)
        else:
            lines += ["snap e/i1/sum.wsp", "clisumcopy base=s item=i1 src=a.wsp destbase=e dest=sum.wsp from=0 until=0 archive=-1 m=%d x=%08x layout=%s" % (
                m, xff, lay_csv(layout)), "disk e/i1/sum.wsp"]
            observe_all(lines, 'e/i1/sum.wsp', other)
        cases.append({'id': 'c05-cli-%d' % c, 'lines': lines, 'tags': {'layout': 'big', 'ops': {'cli_refused_write': 1}}})
        if c % 2 == 1:
            # a run over several files: the destination of an earlier file has to be created, the existing destination of a
            # later file is refused (another layout): the run fails, and that existing destination is as it was
            l2 = CLI_LAYOUTS[rnd.pick(['two_1s', 'three_2s'])]
            gl = []
            for nm in ('g/x/a.wsp', 'g/y/a.wsp', 'g/y/b.wsp'):
                gl += fill_ops(rnd, nm, l2, m, xff, density=0.5, inconsistent=False)
            later = rnd.pick(['h/y/a.wsp', 'h/y/b.wsp'])
            gl += fill_ops(rnd, later, [(s_, nn + 2) for s_, nn in l2], m, xff, density=0.4, inconsistent=False)
            gl += ["snap %s" % later, "clicopy src=g:*/*.wsp dest=h: from=0 until=0 archive=-1 copynan=0 m=%d x=%08x layout=%s" % (m, xff, lay_csv(l2)), "disk %s" % later]
            observe_all(gl, later, [(s_, nn + 2) for s_, nn in l2])
            cases.append({'id': 'c05-cli-%d-globfail' % c, 'lines': gl, 'tags': {'layout': 'glob', 'ops': {'cli_glob_failure_after_creation': 1}}})
        if c % 2 == 0:
            # an existing destination that cannot be opened (what a Create without Sync leaves behind: zeros) and a
            # source that does not exist: the command fails -- which failure it reports is not compared --, and the
            # destination is as it was
            l2 = CLI_LAYOUTS[rnd.pick(['two_1s', 'three_2s', 'big'])]
            bl = ["create d/a.wsp %s m %d x %08x" % (fmt_layout(l2), m, xff), "drop d/a.wsp", "snap d/a.wsp"]
            if rnd.chance(0.5):
                bl += ["clicopy src=s:none.wsp dest=d:a.wsp from=0 until=0 archive=-1 copynan=0 m=%d x=%08x layout=%s nostatus=1" % (m, xff, lay_csv(rnd.pick([l2, CLI_LAYOUTS['single']])))]
            else:
                bl = fill_ops(rnd, 's/i1/a.wsp', [(s_, nn + 1) for s_, nn in l2], m, xff, density=0.5, inconsistent=False) + bl
                bl += ["clicopy src=s:i1/a.wsp dest=d:a.wsp from=0 until=0 archive=-1 copynan=0 m=%d x=%08x layout=%s nostatus=1" % (m, xff, lay_csv(l2))]
            bl += ["disk d/a.wsp"]
            cases.append({'id': 'c05-cli-%d-blank' % c, 'lines': bl, 'tags': {'layout': 'blank_dest', 'ops': {'cli_failed_write_blank_dest': 1}}})
    return cases


# ----------------------------------------------------------------------------- the command line
ARG_VALUES = {
    'src-base': ['/data', '/data/', 'http://h:8080', 'https://x/y', 'ftp://z', '', '.', 'http:/x'],
    'src': ['a.wsp', '*.wsp', 'a[0-9].wsp', 'x\\y.wsp', 'dir/a?.wsp', '', 'sub/b.wsp'],
    'dest-base': ['/d', '/dest/x', 'rel/dir', 'http://h', 'https://h/', '', 'httpx://h', 'HTTP://h'],
    'dest': ['b.wsp', 'sum.wsp', 'sub/c.wsp', '', '*.wsp'],
    'item': ['i*', 'a.b', '*', ''],
    'agg-method': ['sum', 'average', 'last', 'max', 'min', 'first', 'mix', 'percentile', 'bogus', 'Sum', '', 'avg'],
    'x-files-factor': ['0.5', '0', '1', '0.5000000298023224', '0.2500000149011611938476562501', '0.7500000298023223876953126', '0.10000000149011612', '0.30000001192092896', '1.5', '-0.1', 'NaN', 'abc', '1e-3', '0x1p-1', '+0.25', '.5', '1_0', '', '-0', '1.0000001', '1.00000001', 'Inf', '1e-50'],
    'retentions': ['0s:1d', '0:60', '0s:0s', '1s:0s', '1s:1m,0s:1h', '1s:1m', '1m:1h,1h:1d', '1s:5s,5s:1m,1m:1h', '1s:1m,1m:30s', '', '1s:49711d', '1s:137y', '2s:7102w', '1s:1m,2s:49711d', '1s:1193047h', '1s:71582789m', '1s:24856d', '1s', '60:1440', '1s:1m,', '2s:1m,3s:2m', '1m:1y'],
    'from': ['2020-01-01T00:00:00Z', '1970-01-01T00:00:00Z', '2106-02-07T06:28:15Z', '2106-02-07T06:28:16Z', '2020-13-01T00:00:00Z', '2020-01-01', '',
             '2020-01-01T0:00:00Z', '2020-01-01T00:00:00.000Z', '2020-01-01T00:00:00.5Z', '2021-06-30T12:00:00Z', '1969-12-31T23:59:59Z', '2020-02-30T00:00:00Z', '0'],
    'archive': ['0', '1', '-1', '+2', '007', '08', '0x10', '0b11', '0o17', 'abc', '', '9223372036854775807', '9223372036854775808', '-9223372036854775808',
                '-9223372036854775809', '1.5', '0X1f', '0B2', '00', '-', '+', '0x', '1e3', ' 1'],
    'text-out': ['', '-', '/tmp/x.txt', 'out'],
    'perm': ['644', '0644', '600', '8', '777777777777', '37777777777', '40000000000', '-1', '', '0o7', '+7'],
    'max': ['0', '100', '-5', 'x', '0x7f', '1e3', '010', '0100', '0777', '08', '0o17', '0b101', '0X1f', '+7', '-0', '00', '0x', '2147483647', '2147483648', '9223372036854775808'],          # (no underscores: the model's ParseInt leaves the underscore syntax out)
    'addr': [':8080', 'localhost:0', ''],
    'base': ['.', '/srv', ''],
}
ARG_VALUES['until'] = ARG_VALUES['from']
BOOL_FLAGS = {'copy-nan', 'header', 'sort', 'fill'}
BOOL_VALUES = ['true', 'false', 'T', 'F', '0', '1', 'TRUE', 'True', 'FALSE', 'False', 't', 'f', 'yes', 'no', '', 'tRUE', '2']
SUB_FLAGS = {
    'copy': (['src-base', 'src', 'dest-base', 'agg-method', 'retentions'], ['dest', 'x-files-factor', 'from', 'until', 'archive', 'text-out', 'copy-nan']),
    'diff': (['src-base', 'src', 'dest-base'], ['dest', 'archive', 'text-out', 'from', 'until']),
    'generate': (['dest', 'agg-method', 'retentions'], ['perm', 'x-files-factor', 'max', 'fill', 'text-out']),
    'server': ([], ['addr', 'base']),
    'sum': (['item', 'src-base', 'src'], ['archive', 'text-out', 'header', 'from', 'until']),
    'sum-copy': (['item', 'src-base', 'src', 'dest-base', 'dest', 'agg-method', 'retentions'], ['x-files-factor', 'from', 'until', 'archive', 'text-out']),
    'sum-diff': (['item', 'src-base', 'src', 'dest-base', 'dest'], ['archive', 'text-out', 'from', 'until']),
    'view': (['src-base', 'src'], ['from', 'until', 'archive', 'text-out', 'header']),
    'view-raw': (['src-base', 'src'], ['from', 'until', 'archive', 'header', 'sort', 'text-out']),
}
ALL_FLAG_NAMES = sorted(ARG_VALUES) + sorted(BOOL_FLAGS)


def gen_args(rnd, n):
    """command lines: mostly complete and valid, with the window options in every combination, plus
    every value syntax, the argument forms of the flag package, unknown and foreign flags"""
    cases = []
    def hexarg(a):
        return a.encode('latin-1').hex() or '-'
    for c in range(n):
        lines = []
        hist = {}
        for _ in range(12):
            sub = rnd.pick(list(SUB_FLAGS))
            required, optional = SUB_FLAGS[sub]
            items = []          # (name, value or None)
            good_first = rnd.chance(0.85)           # values that parse, mostly
            def pickval(name):
                vals = BOOL_VALUES if name in BOOL_FLAGS else ARG_VALUES[name]
                if name in BOOL_FLAGS:
                    return rnd.pick(vals[:12]) if good_first else rnd.pick(vals)
                return vals[rnd.randrange(min(len(vals), 3))] if good_first and rnd.chance(0.8) else rnd.pick(vals)
            for name in required:
                if rnd.chance(0.9):
                    items.append((name, pickval(name)))
            for name in optional:
                if rnd.chance(0.4):
                    items.append((name, None if name in BOOL_FLAGS and rnd.chance(0.5) else pickval(name)))
            if rnd.chance(0.15):
                nm = rnd.pick(ALL_FLAG_NAMES)       # a flag of some (possibly other) command, again
                items.append((nm, None if nm in BOOL_FLAGS and rnd.chance(0.5) else pickval(nm)))
            rnd.shuffle(items)
            args = []
            for name, val in items:
                dash = rnd.pick(['-', '-', '-', '--'])
                if val is None:
                    args.append(dash + name)
                elif name in BOOL_FLAGS:
                    if rnd.chance(0.85):
                        args.append('%s%s=%s' % (dash, name, val))
                    else:
                        args += [dash + name, val]          # the value is a positional argument: the flags end here
                elif rnd.chance(0.5):
                    args.append('%s%s=%s' % (dash, name, val))
                else:
                    args += [dash + name, val]
            r = rnd.random() * 2
            odd = None
            if r < 0.04: odd = '-h'
            elif r < 0.07: odd = '--help'
            elif r < 0.09: odd = '-help=1'
            elif r < 0.13: odd = '-bogus'
            elif r < 0.15: odd = '--'
            elif r < 0.17: odd = '-'
            elif r < 0.19: odd = 'file.wsp'
            elif r < 0.21: odd = '---x'
            elif r < 0.23: odd = '-=x'
            elif r < 0.25: odd = ''
            elif r < 0.27: odd = '-src'          # may lack its argument when last
            elif r < 0.29: odd = '--=' 
            if odd is not None:
                args.insert(rnd.randrange(len(args) + 1), odd)
            hist[sub] = hist.get(sub, 0) + 1
            lines.append('cliargs %s %s' % (sub, ' '.join(hexarg(a) for a in args)))
        cases.append({'id': 'args-%d' % c, 'lines': lines, 'tags': {'layout': 'args', 'src': 'args', 'dest': 'args', 'sub': hist, 'kind': 'args', 'files': 0, 'window': 'args'}})
    return cases


def procify(gen, share=0.12):
    """Some invocations are made through the program itself (cmd/whispertool/main.go: dispatch, flags, exit
    status) instead of the command value: option proc=1.  Only windows the flags can express (an end of 0
    together with a start is refused by every Parse)."""
    heads = ('clicopy ', 'clidiff ', 'clisum ', 'clisumcopy ', 'clisumdiff ', 'cliview ', 'cliviewraw ', 'cligenerate ')
    def ok(line):
        if not line.startswith(heads) or any(t in line for t in (' live=', ' hold=', ' slow=', ' ro=', ' intruder=', ' again=', ' proc=', ' deep=', 'remotedest=1', ' twice=')):
            return False
        kv = dict(t.split('=', 1) for t in line.split()[1:] if '=' in t)
        frm, until = kv.get('from', '0'), kv.get('until', '0')
        if frm != '0' and until == '0':
            return False
        if frm.startswith('@+') or until.startswith('@+'):
            return True
        return True
    def g(rnd, n, thorough=False):
        cases = gen(rnd, n, thorough)
        for cs in cases:
            cs['lines'] = [l + ' proc=1' if ok(l) and rnd.chance(share) else l for l in cs['lines']]
        return cases
    return g


for _p in ('C08', 'C09', 'C10', 'C11', 'C12', 'C16', 'C18', 'C20'):
    GENS[_p] = procify(GENS[_p])
