"""Case generators for the binary codec (C14), hostile bytes (C15) and layout validation (C07)."""
import struct
from common import *


def be32(x):
    return struct.pack('>I', x & 0xffffffff)


def be64(x):
    return struct.pack('>Q', x & 0xffffffffffffffff)


def hx(b):
    return b.hex() if b else '-'


def enc_header_py(m, xff, layout, maxret=None, offsets=None):
    k = len(layout)
    off = 16 + 12 * k
    body = b''
    offs = []
    for s, n in layout:
        offs.append(off)
        off += 12 * n
    if offsets:
        offs = offsets
    for (s, n), o in zip(layout, offs):
        body += be32(o) + be32(s) + be32(n)
    if maxret is None:
        maxret = layout[-1][0] * layout[-1][1] if layout else 0
    return be32(m) + be32(maxret) + be32(xff) + be32(k) + body


def any_value(rnd):
    r = rnd.random()
    if r < 0.3:
        return rnd.pick(NAN_VALUES + SPECIAL_VALUES)
    if r < 0.6:
        return small_value(rnd)
    return rnd.getrandbits(64)


def any_time(rnd):
    return rnd.pick([0, 1, 2 ** 31 - 1, 2 ** 31, 2 ** 32 - 1, rnd.getrandbits(32), 1600000000 + rnd.randint(0, 10 ** 8)])


def gen_object(rnd):
    """-> (kind, 'enc ...' line, encoding bytes)"""
    kind = rnd.pick(['ts', 'dur', 'val', 'point', 'points', 'points', 'series', 'series', 'series', 'header', 'header', 'ainfo'])
    if kind == 'ts':
        t = any_time(rnd)
        return kind, 'enc ts %d' % t, be32(t)
    if kind == 'dur':
        d = rnd.pick([0, 1, -1, 2 ** 31 - 1, -2 ** 31, rnd.randint(-2 ** 31, 2 ** 31 - 1), 60, 86400])
        return kind, 'enc dur %d' % d, be32(d)
    if kind == 'val':
        v = any_value(rnd)
        return kind, 'enc val %016x' % v, be64(v)
    if kind == 'point':
        t, v = any_time(rnd), any_value(rnd)
        return kind, 'enc point %d %016x' % (t, v), be32(t) + be64(v)
    if kind == 'points':
        n = rnd.pick([0, 1, 2, 3, 7, rnd.randint(0, 40), rnd.randint(0, 40), rnd.pick([255, 256, 257, 511, 512, 513, 600, 1023, 1024, 1025, 1500])])
        pts = [(any_time(rnd), any_value(rnd)) for _ in range(n)]
        line = 'enc points %d %s' % (n, ' '.join('%d %016x' % p for p in pts))
        return kind, line.strip(), be64(n) + b''.join(be32(t) + be64(v) for t, v in pts)
    if kind == 'series':
        step = rnd.pick([1, 1, 10, 60, 300, 86400, rnd.randint(1, 100000), 2 ** 31 - 1])
        n = rnd.pick([0, 1, 2, 3, 8, rnd.randint(0, 50)])
        fr = rnd.pick([0, 1, 1600000000, rnd.getrandbits(31)])
        un = fr + n * step + rnd.pick([0, 0, rnd.randint(0, step - 1)])
        if rnd.chance(0.25):
            # spans of 2^31 seconds and more (the difference does not fit an int32 Duration)
            step = rnd.pick([2 ** 31 - 1, 2 ** 30, 10 ** 9, 2 ** 29 + 1, 715827883])
            fr = rnd.pick([0, 1, 10 ** 9, rnd.getrandbits(30)])
            n = rnd.randint(1, 4)
            while fr + n * step >= 2 ** 32:
                n -= 1
            n = max(n, 0)
            un = min(fr + n * step + rnd.pick([0, 0, 1, step - 1]), 2 ** 32 - 1)
        if un >= 2 ** 32:
            fr, un = 0, n * step
            if un >= 2 ** 32:
                n = 1; un = step
        vs = [any_value(rnd) for _ in range(n)]
        line = 'enc series %d %d %d %d %s' % (fr, un, step, n, ' '.join('%016x' % v for v in vs))
        return kind, line.strip(), be32(fr) + be32(un) + be32(step) + b''.join(be64(v) for v in vs)
    if kind == 'ainfo':
        s, n = rnd.pick([1, 60, 2 ** 31 - 1, -1, 0]), rnd.pick([0, 1, 100, 2 ** 32 - 1])
        return kind, 'enc ainfo %d %d' % (s, n), be32(0) + be32(s) + be32(n)
    lname, layout = pick_layout(rnd, random_share=0.6)
    m, xff = rnd.pick(METHODS), rnd.pick(XFF_VALID)
    return kind, 'enc header %d %08x %s' % (m, xff, fmt_layout(layout)), enc_header_py(m, xff, layout)


def gen_c14(rnd, n, thorough=False):
    cases = []
    # headers of every length a valid file can have (1 to 30 archives), written by Create + Sync and read
    # back by Open: the decoder's retry with a larger buffer gets the header AppendTo encoded
    for k in ([1, 2, 20, 21, 22, 25, 30] if not thorough else list(range(1, 31))):
        lay = [(2 ** i, 2) for i in range(k)]
        cases.append({'id': 'c14-arch%d' % k, 'lines': ["create f %s m %d x %08x" % (fmt_layout(lay), rnd.pick(METHODS), rnd.pick(XFF_VALID)), "sync f", "open f", "hdr f", "hdrof f",
                                                        "enc header 2 3f000000 %s" % fmt_layout(lay)], 'tags': {'kind': 'header_of_%d_archives' % k}})
    for c in range(n):
        kind, line, enc = gen_object(rnd)
        lines = [line]
        total = len(enc)
        if total <= (400 if thorough else 80):
            ks = list(range(total))
        else:
            ks = sorted(set([0, 1, 3, 4, 7, 8, 11, 12, 15, 16, 17, 27, 28, total - 9, total - 8, total - 1]
                            + [rnd.randrange(total) for _ in range(12)]))
            ks = [k for k in ks if 0 <= k < total]
        for k in ks:
            lines.append('dec %s %s' % (kind, hx(enc[:k])))
        trailer = bytes(rnd.getrandbits(8) for _ in range(rnd.pick([0, 1, 3, 8, 20])))
        lines.append('dec %s %s' % (kind, hx(enc + trailer)))
        if kind == 'header':
            # the same header with another max-retention word (a file another tool resized): a header value like
            # any other -- decoding and encoding it again gives these bytes
            stale = enc[:4] + be32(rnd.pick([0, 1, 7200, 2 ** 31 - 1, 2 ** 32 - 1, rnd.getrandbits(32)])) + enc[8:]
            lines.append('dec header %s' % hx(stale + trailer))
        # a second message right behind the first one
        kind2, line2, enc2 = gen_object(rnd)
        lines.append(line2)
        lines.append('dec %s %s' % (kind, hx(enc + enc2)))
        lines.append('dec %s %s' % (kind2, hx(enc2 + trailer)))
        # a reader looping over messages decodes into the same variable again and again: a longer
        # message, then a shorter or equally long one of the same kind (complete, truncated, with trailer)
        for _r in range(2):
            rk = rnd.pick(['header', 'header', 'points', 'series'])
            objs = []
            for _t in range(40):
                k3, l3, e3 = gen_object(rnd)
                if k3 == rk:
                    objs.append((l3, e3))
                if len(objs) == 2:
                    break
            if len(objs) == 2:
                objs.sort(key=lambda le: -len(le[1]))
                (l_a, e_a), (l_b, e_b) = objs
                lines += [l_a, l_b]
                second = rnd.pick([e_b, e_b, e_b + trailer, e_b[:max(len(e_b) - rnd.randint(1, 9), 0)], e_a])
                lines.append('decreuse %s %s %s' % (rk, hx(e_a), hx(second)))
                # ... and after a first decode that failed (a truncated message) or was cut short
                lines.append('decreuse %s %s %s' % (rk, hx(e_a[:rnd.randint(0, max(len(e_a) - 1, 0))]), hx(rnd.pick([e_b, e_a, e_b + trailer]))))
        cases.append({'id': 'c14-%d' % c, 'lines': lines, 'tags': {'kind': kind, 'prefixes': len(ks), 'size': min(total // 50 * 50, 500)}})
    return cases


GENS = {'C14': gen_c14}


def image_py(m, xff, layout, slots=None, maxret=None):
    """bytes of a whisper file: header + slots (slots[a] = list of (time, valuebits), zero filled)"""
    b = enc_header_py(m, xff, layout, maxret=maxret)
    for a, (s, n) in enumerate(layout):
        sl = (slots or {}).get(a, [])
        for j in range(n):
            t, v = sl[j] if j < len(sl) else (0, 0)
            b += be32(t) + be64(v)
    return b


def gen_c15(rnd, n, thorough=False):
    """Hostile bytes: decoders on random / mutated / extreme inputs, and Open plus operations on
    damaged files, each in a child process with an address-space limit and a timeout."""
    cases = []
    extreme_counts = [0, 1, 2 ** 31 - 1, 2 ** 31, 2 ** 32 - 1, 2 ** 32, 178956970, 178956971, 357913941, 357913942, 357913943,
                      0x1555555555555555, 0x1555555555555556, 2 ** 63 - 1, 2 ** 63, 2 ** 64 - 1, 1 << 40]
    for c in range(n):
        lines = []
        tags = {'ops': {}}
        def add(op, line):
            lines.append(line); tags['ops'][op] = tags['ops'].get(op, 0) + 1
        if c % 10 == 3:
            # the remote-read client against a server that announces more bytes than it sends (the connection is
            # cut, or the announcement is absurd): an error, with memory in proportion to what arrived
            layout = [(1, 3)] if rnd.chance(0.5) else [(1, 4), (2, 4)]
            hb = enc_header_py(2, 0x3f000000, layout)
            body = hb + b''.join(be32(100) + be32(100 + s_ * n_) + be32(s_) + b''.join(be64(fbits(float(i_))) for i_ in range(n_)) for s_, n_ in layout)
            rawbody = hb + b''.join(be64(n_) + b''.join(be32(100 + i_) + be64(fbits(float(i_))) for i_ in range(n_)) for s_, n_ in layout)
            for _ in range(3):
                kind2 = rnd.pick(['view', 'viewraw'])
                full = body if kind2 == 'view' else rawbody
                sent = rnd.pick([full, full, full[:len(hb)], full[:rnd.randint(1, len(full) - 1)], hb[:16]])
                announced = len(sent) if sent is full and rnd.chance(0.4) else rnd.pick([2 ** 62, 2 ** 63 - 1, 256 * 2 ** 20, 2 ** 31, 2 ** 32 + 5, len(sent) + 1, len(sent) + 4096, 10 ** 9])
                add('hremote', 'hremote kind=%s len=%d body=%s' % (kind2, announced, hx(sent)))
            # name lists (/files, /items) with empty lines, lone CRs, no final newline, one very long line, NULs: the
            # commands that glob through a server return
            for _ in range(4):
                nm = rnd.pick([b"a.wsp\n\nb.wsp\n", b"\na.wsp\n", b"a.wsp\n\n", b"\n", b"\r\n", b"\r", b"a.wsp\r\n\r\nb.wsp", b"i1\n\n\ni2", b"\n\n\n\n",
                               b"x" * rnd.pick([4095, 4096, 65536, 70000]) + b"\n\n", b"a\x00b\n\n", b"i.1\n\r\n.\n..\n"])
                add('hremote', 'hremote kind=%s len=%d body=%s' % (rnd.pick(['files', 'items']), len(nm), hx(nm)))
            # an honest, well-formed answer with fewer archives than the archive the user selected
            for aid in rnd.sample([0, 1, 2, 5, -2, 2 ** 31], 3):
                kind2 = rnd.pick(['view', 'viewraw'])
                full = body if kind2 == 'view' else rawbody
                add('hremote', 'hremote kind=%s len=%d body=%s archive=%d' % (kind2, len(full), hx(full), aid))
            cases.append({'id': 'c15-%d' % c, 'lines': lines, 'tags': tags})
            continue
        kind = rnd.pick(['decoders', 'decoders', 'file_truncated', 'file_garbage_slots', 'file_garbage_slots', 'file_garbage_slots', 'file_huge_header', 'file_random', 'file_bitflip', 'file_field', 'file_field', 'file_count_page', 'file_base', 'file_base'])
        if kind == 'decoders':
            for _ in range(rnd.randint(3, 8)):
                k2, _line, enc = gen_object(rnd)
                r = rnd.random()
                if r < 0.3:
                    b = bytes(rnd.getrandbits(8) for _ in range(rnd.pick([0, 1, 7, 8, 11, 12, 15, 16, 17, 28, 40, 100])))
                elif r < 0.6 and enc:
                    b = bytearray(enc)
                    for _f in range(rnd.randint(1, 3)):
                        i = rnd.randrange(len(b)); b[i] ^= 1 << rnd.randrange(8)
                    b = bytes(b)
                elif r < 0.8:
                    cnt = rnd.pick(extreme_counts)
                    if k2 == 'points':
                        b = be64(cnt) + bytes(rnd.getrandbits(8) for _ in range(rnd.pick([0, 11, 12, 24])))
                    elif k2 == 'series':
                        fr = rnd.pick([0, 1, 2 ** 32 - 1, 100])
                        un = rnd.pick([0, 2 ** 32 - 1, fr, fr + 1, 2 ** 31])
                        st = rnd.pick([0, 1, 2 ** 31 - 1, 2 ** 31, 2 ** 32 - 1, 8, 3])
                        b = be32(fr) + be32(un) + be32(st) + bytes(rnd.getrandbits(8) for _ in range(rnd.pick([0, 8, 16])))
                    elif k2 == 'header' and enc and rnd.chance(0.5):
                        j = rnd.pick([0, 0, 1, 2, 3, 4, 5, 6])
                        j = min(j, len(enc) // 4 - 1)
                        v = rnd.pick([0, 7, 8, 9, 2 ** 31, 2 ** 32 - 1]) if j == 0 else rnd.pick([0, 1, 2 ** 31 - 1, 2 ** 31, 2 ** 32 - 1, 0x7fc00000])
                        b = enc[:4 * j] + be32(v) + enc[4 * j + 4:]
                    elif k2 == 'header':
                        b = be32(rnd.pick([1, 2, 6, 0, 7])) + be32(rnd.getrandbits(32)) + be32(rnd.pick(XFF_VALID + [0x7fc00000])) + be32(cnt & 0xffffffff) \
                            + bytes(rnd.getrandbits(8) for _ in range(rnd.pick([0, 12, 24])))
                    else:
                        b = enc[:rnd.randint(0, len(enc))]
                else:
                    b = enc[:rnd.randint(0, max(len(enc) - 1, 0))]
                add('hdec', 'hdec %s %s' % (k2, hx(b)))
        else:
            lname, layout = pick_layout(rnd, ['ring2', 'three', 'tens', 'single5', 'barely', 'four'], random_share=0.3, max_points=20)
            k = len(layout)
            m, xff = rnd.pick(METHODS), rnd.pick(XFF_VALID)
            now = 1700000000 + rnd.randint(0, 10 ** 6)
            slots = {}
            for a, (s, nn) in enumerate(layout):
                base = now - now % s
                slots[a] = [(base - j * s, small_value(rnd)) if rnd.chance(0.6) else (0, 0) for j in range(nn)]
            img = image_py(m, xff, layout, slots)
            if kind == 'file_truncated':
                cut = rnd.pick([0, 1, 6, 15, 16, 17, 16 + 12 * k - 1, 16 + 12 * k, 16 + 12 * k + 1, len(img) - 13, len(img) - 12, len(img) - 1,
                                rnd.randrange(len(img))])
                img = img[:max(cut, 0)]
            elif kind == 'file_garbage_slots':
                for a, (s, nn) in enumerate(layout):
                    slots[a] = [(rnd.pick([now - rnd.randint(0, 3 * s * nn), now - rnd.randint(0, 3 * s * nn) + 1, rnd.getrandbits(32), 0, 2 ** 32 - 1]), value(rnd))
                                for _j in range(nn)]
                img = image_py(m, xff, layout, slots, maxret=rnd.pick([None, None, 0, 1, 2 ** 31 - 1, 2 ** 32 - 1]))
            elif kind == 'file_huge_header':
                lay = rnd.pick([[(1, 357913943)], [(1, 357913930), (2, 357913950)], [(1, 2 ** 31 - 1)], [(1, 100), (100, 21474836)],
                                [(1, 357913942)], [(2, 357913943)], [(1, 4), (4, 357913942)]])
                img = enc_header_py(m, xff, lay) + bytes(rnd.pick([0, 8, 12, 100]))
            elif kind == 'file_random':
                img = bytes(rnd.getrandbits(8) for _ in range(rnd.pick([0, 5, 16, 28, 40, 200])))
            elif kind == 'file_count_page':
                # an archive count whose header (16 + 12*count bytes) ends right around the end of a
                # memory page of 4, 16 or 64 KiB, in a file long enough to hold it
                page = rnd.pick([4096, 4096, 16384, 65536])
                c0 = (page - 16) // 12
                for cnt in range(c0 - 2, c0 + 5):          # every count around the boundary
                    body = bytes(rnd.getrandbits(8) for _ in range(24)) if rnd.chance(0.5) else bytes(24)
                    im = be32(m) + be32(rnd.getrandbits(31)) + be32(xff) + be32(cnt) + body + bytes(12 * cnt + rnd.pick([0, 1, 100]))
                    add('rawfile', 'rawfile p%d %s' % (cnt, hx(im)))
                    add('hopen', 'hopen p%d' % cnt)
                img = bytes(rnd.getrandbits(8) for _ in range(16))
            elif kind == 'file_field':
                # one 32-bit header field of an otherwise valid file replaced by a neighbouring or
                # extreme value (aggregation type 7 and 8 are reserved names the code cannot aggregate)
                j = rnd.pick([0, 0, 0, 1, 2, 3] + list(range(4, 4 + 3 * k)))
                cur = int.from_bytes(img[4 * j:4 * j + 4], 'big')
                if j == 0:
                    v = rnd.pick([0, 7, 7, 8, 8, 9, 255, 2 ** 31, 2 ** 32 - 1])
                else:
                    v = rnd.pick([0, 1, cur + 1, max(cur - 1, 0), cur + 12, 2 ** 31 - 1, 2 ** 31, 2 ** 32 - 1, 0x7fc00000, 0xbf800000, 0x3f800001])
                img = img[:4 * j] + be32(v) + img[4 * j + 4:]
            elif kind == 'file_base':
                # a healthy file whose only damage is the time stamp of slot 0 of one archive (the ring's base):
                # one bit flipped -- the lowest (no longer a multiple of the step), the highest (2^31 s away), another
                a0 = rnd.randrange(k)
                off = 16 + 12 * k + 12 * sum(nn for _, nn in layout[:a0])
                cur = int.from_bytes(img[off:off + 4], 'big')
                if cur == 0:
                    cur = now - now % layout[a0][0]
                bit = rnd.pick([0, 0, 31, 31, 1, rnd.randrange(32)])
                img = img[:off] + be32(cur ^ (1 << bit)) + img[off + 4:]
            elif kind == 'file_bitflip':
                b = bytearray(img)
                for _f in range(rnd.randint(1, 4)):
                    i = rnd.randrange(min(len(b), 16 + 12 * k + 24)); b[i] ^= 1 << rnd.randrange(8)
                img = bytes(b)
            add('rawfile', 'rawfile f %s' % hx(img))
            add('hopen', 'hopen f')
            if kind not in ('file_huge_header', 'file_count_page') and rnd.chance(0.5):
                # a rejected file is neither left open nor locked: the next Open does not hang
                add('lockfail', 'lockfail f')
                add('lockfail', 'lockfail f')
            for _ in range(rnd.randint(2, 5)):
                a = rnd.pick([-1] + list(range(k)))
                for fr, un in windows(rnd, layout, a, now, 1):
                    add('hfetch', 'hfetch f %d %d %d %d' % (a, fr, un, now))
            if kind == 'file_base':
                # every one-slot and two-slot window of every archive, and updates all over the finest one
                for a_, (s_, nn_) in enumerate(layout):
                    hi = now - now % s_
                    for j_ in range(nn_ + 1):
                        add('hfetch', 'hfetch f %d %d %d %d' % (a_, hi - j_ * s_ - 1, hi - j_ * s_, now))
                        if j_ % 3 == 0:
                            add('hfetch', 'hfetch f %d %d %d %d' % (a_, hi - j_ * s_ - s_ - 1, hi - j_ * s_, now))
                for j_ in range(layout[0][1]):
                    add('hupd', 'hupd f -1 %d %016x %d' % (now - j_ * layout[0][0], small_value(rnd), now))
            add('hraw', 'hraw f %d' % rnd.randrange(k))
            S0, N0 = layout[0]
            add('hupd', 'hupd f %d %d %016x %d' % (rnd.pick([-1, 0]), now - rnd.randint(0, S0 * N0 - 1), small_value(rnd), now))
            pts = [(now - rnd.randint(0, S0 * N0 - 1), small_value(rnd)) for _j in range(rnd.randint(1, 5))]
            add('hmany', 'hmany f %d %d %d %s' % (rnd.pick([-1, 0]), now, len(pts), ' '.join('%d %016x' % p for p in pts)))
        tags['kind'] = kind
        cases.append({'id': 'c15-%d' % c, 'lines': lines, 'tags': tags})
    # a header that is valid except for an INNER archive whose retention does not fit 31 bits (its wrapped value
    # looks short), in a file long enough: Open refuses it; whatever is opened answers fetches with windows
    # ending far after the clock without panicking
    for j, lay in enumerate([[(2 ** 20, 4095), (2 ** 21, 1023)], [(65536, 65535), (131072, 16383)][:2] if thorough else [(2 ** 20, 2048), (2 ** 21, 1023)]]):
        now = 1700000000
        sl = {0: [(now - now % lay[0][0], fbits(1.0))], 1: [(now - now % lay[1][0], fbits(2.0))]}
        img = image_py(2, 0x3f000000, lay, sl)
        ll = ['rawfile f %s' % hx(img), 'hopen f']
        for a_ in (0, 1, -1):
            for un in (now, now + lay[0][0], now + 2 * lay[0][0] + 2 ** 20, now + 3 * 2 ** 20, 2 ** 32 - 1):
                ll.append('hfetch f %d %d %d %d' % (a_, now - 5, un, now))
                ll.append('hfetch f %d %d %d %d' % (a_, 0, un, now))
        ll.append('hupd f -1 %d %016x %d' % (now, fbits(3.0), now))
        cases.append({'id': 'c15-innerwrap-%d' % j, 'lines': ll, 'tags': {'ops': {'hfetch': 30}, 'kind': 'inner_retention_wrap'}})
    # a whole item of damaged files (more than any worker pool: what a full disk leaves behind): the sum reports
    # an error -- it does not hang --, through a directory and through a server, and again
    nf = rnd.randint(65, 100)
    good = image_py(2, 0x3f000000, [(1, 4), (2, 4)], {})
    ll = []
    for j in range(nf):
        dmg = rnd.pick([good[:16], good[:rnd.randint(1, 39)], good[:40], good[:12] + be32(0) + good[16:], be32(9) + good[4:], good[:len(good) - rnd.randint(1, 12)]])
        ll.append('rawfile s/i1/f%03d.wsp %s' % (j, hx(dmg)))
    for rem in (0, 1, 0):
        ll.append('clisum base=s item=i1 src=*.wsp from=0 until=0 archive=-1 header=1 remote=%d' % rem)
    cases.append({'id': 'c15-manydamaged', 'lines': ll, 'tags': {'ops': {'rawfile': nf, 'clisum': 3}, 'kind': 'item_of_damaged_files'}})
    # copy and sum-copy whose source AND existing destination are damaged (two rejections in one call: which one is
    # reported is not compared): an error is returned -- no panic
    good = image_py(2, 0x3f000000, [(1, 4), (2, 4)], {})
    ll = []
    for nm in ('s/i1/a.wsp', 'd/a.wsp', 'e/i1/sum.wsp'):
        ll.append('rawfile %s %s' % (nm, hx(rnd.pick([good[:16], good[:30], be32(9) + good[4:], good[:len(good) - 5], bytes(len(good))]))))
    ll += ["clicopy src=s:i1/a.wsp dest=d:a.wsp from=0 until=0 archive=-1 copynan=0 m=2 x=3f000000 layout=2,1,4,2,4 nostatus=1",
           "clisumcopy base=s item=i1 src=*.wsp destbase=e dest=sum.wsp from=0 until=0 archive=-1 m=2 x=3f000000 layout=2,1,4,2,4 nostatus=1",
           "clicopy src=s:i1/a.wsp dest=d:a.wsp from=0 until=0 archive=-1 copynan=1 m=2 x=3f000000 layout=2,1,4,2,4 nostatus=1 remote=1"]
    cases.append({'id': 'c15-bothdamaged', 'lines': ll, 'tags': {'ops': {'rawfile': 3, 'clicopy': 2, 'clisumcopy': 1}, 'kind': 'source_and_destination_damaged'}})
    # counts whose size in bytes wraps 64 (or 32, 63) bits, with nothing / a little / a point behind them
    lines = []
    wraps = [2 ** 62, 2 ** 62 + 1, 2 ** 63, 2 ** 63 + 2 ** 62, 3 * 2 ** 62 + 1, (2 ** 64 + 8) // 12, (2 ** 64 + 12) // 12, (2 ** 65 + 4) // 12 + 1, (2 ** 64) // 12 + 1,
             (2 ** 64) // 8, (2 ** 64) // 8 + 1, (2 ** 32) // 12 + 1, (2 ** 32 + 12) // 12, (2 ** 31) // 12 + 1, 2 ** 61, 2 ** 60 + 2 ** 62]
    for cnt in wraps:
        for tail in (0, 8, 12, 24):
            lines.append('hdec points %s' % hx(be64(cnt % 2 ** 64) + bytes(rnd.getrandbits(8) for _ in range(tail))))
    for cnt in [2 ** 32 // 8 + 1, 2 ** 31 // 8 + 1, 2 ** 29, 2 ** 28 + 1, 2 ** 32 - 1]:
        for tail in (0, 8, 16):
            # a series whose count = (until - from) / step: from 0, step 1, until = count
            lines.append('hdec series %s' % hx(be32(0) + be32(cnt % 2 ** 32) + be32(1) + bytes(rnd.getrandbits(8) for _ in range(tail))))
    cases.append({'id': 'c15-countwrap', 'lines': lines, 'tags': {'ops': {'hdec': len(lines)}, 'kind': 'count_wrap_sweep'}})
    return cases


def gen_c06(rnd, n, thorough=False):
    """Interoperability: files written by whispertool or by the reference implementation, read by
    both (and by the reference-reader model) from the same bytes."""
    cases = []
    for c in range(n):
        lname, layout = pick_layout(rnd, ['ring2', 'ring2c', 'ratioN', 'barely', 'barely3', 'three', 'four', 'single5', 'tens'], random_share=0.4, max_points=25)
        k = len(layout)
        m, xff = rnd.pick(METHODS), rnd.pick([0x00000000, 0x3e800000, 0x3f000000, 0x3f800000, 0x3eaaaaab])
        rets = retentions(layout)
        now = clock_in_domain(rnd, layout)
        writer = rnd.pick(['whispertool', 'whispertool', 'go-whisper'])
        lines = []
        nan_ok = m not in (4, 5)
        if writer == 'whispertool':
            lines.append("create f %s m %d x %08x" % (fmt_layout(layout), m, xff))
            for _ in range(rnd.randint(0, 8)):
                now = advance(rnd, now, layout)
                if rnd.chance(0.4):
                    lines.append("upd f -1 %d %016x %d" % (now - rnd.randint(0, rets[-1] - 1), value(rnd, nan_ok), now))
                else:
                    ident = rnd.pick([-1, -1] + list(range(k)))
                    R = rets[-1] if ident < 0 else rets[ident]
                    pts = [(now - rnd.randint(0, R - 1), value(rnd, nan_ok)) for _j in range(rnd.randint(1, 10))]
                    if rnd.chance(0.3):       # future-dated points: stored by the batch API, one lap ahead of old slots
                        pts += [(now + rnd.randint(1, 3 * layout[0][0]), value(rnd, nan_ok)) for _j in range(rnd.randint(1, 3))]
                    cand = [a_ for a_ in range(k) if layout[a_][0] >= 2 and layout[a_][1] >= 4]
                    if cand and rnd.chance(0.3):
                        # a run of consecutive intervals of one archive with one interval missing and another one
                        # hit twice (two different timestamps): as many points as intervals spanned
                        ident = rnd.pick(cand)
                        S_, N_ = layout[ident]
                        m_ = rnd.randint(3, min(N_, 8))
                        iend = now // S_
                        ivs = list(range(iend - m_ + 1, iend + 1))
                        hole = rnd.randrange(1, m_ - 1)
                        twice = rnd.choice([j_ for j_ in range(m_) if j_ != hole])
                        pts = []
                        for j_, iv in enumerate(ivs):
                            if j_ == hole:
                                continue
                            offs = rnd.sample(range(S_), 2 if j_ == twice else 1)
                            pts += [(min(iv * S_ + o_, now), value(rnd, nan_ok)) for o_ in sorted(offs)]
                        if rnd.chance(0.3):
                            ident = -1 if ident == 0 else ident
                    lines.append("many f %d %d %d %s" % (ident, now, len(pts), " ".join("%d %016x" % tv for tv in pts)))
            lines += ["sync f"]
            # the file whispertool wrote is the file of the model (the classic file of this history): every
            # archive's whole retention through a second handle on the path
            lines += ["dfetch f %d %d %d %d" % (a_, max(now - rets[a_], 0), now, now) for a_ in range(k)]
            lines += ["drop f"]
        else:
            lines.append("gwcreate f %s m %d x %08x" % (fmt_layout(layout), m, xff))
            for _ in range(rnd.randint(0, 8)):
                now = advance(rnd, now, layout)
                if rnd.chance(0.4):
                    lines.append("gwupd f %d %016x %d" % (now - rnd.randint(0, rets[-1] - 1), value(rnd, False), now))
                else:
                    pts = [(now - rnd.randint(0, rets[-1] - 1), value(rnd, False)) for _j in range(rnd.randint(1, 10))]
                    lines.append("gwmany f %d %d %s" % (now, len(pts), " ".join("%d %016x" % tv for tv in pts)))
            lines.append("gwclose f")
        for _ in range(rnd.randint(3, 7)):
            if rnd.chance(0.3):
                now = advance(rnd, now, layout)
            band = rnd.randrange(k)
            lo = rets[band - 1] if band > 0 else 0
            fr = now - rnd.randint(lo, rets[band])             # from inside this archive's band
            un = rnd.pick([now, fr + rnd.randint(1, rets[band]), fr + layout[band][0], fr, now + 5])
            rnow = now - rnd.randint(1, 3 * layout[0][0]) if rnd.chance(0.25) else now      # a reader whose clock lags the writer's
            lines.append("clixread f %d %d %d" % (max(fr, 0), max(un, 0), rnow))
        for band in range(k):
            # ... and the whole retention of every archive
            lines.append("clixread f %d %d %d" % (max(now - rets[band], 0), now, now))
        cases.append({'id': 'c06-%d' % c, 'lines': lines, 'tags': {'layout': lname, 'writer': writer, 'levels': k, 'method': m}})
        if rnd.chance(0.15):
            # a decimal xFilesFactor met EXACTLY (j known of 10 finer slots): both writers decide in float32
            j = rnd.pick([1, 2, 3, 4, 6, 7, 8, 9])
            xd = f32bits(j / 10)
            lay = [(1, 10), (10, 10)] if rnd.chance(0.6) else [(1, 20), (10, 12), (100, 6)]
            nw = 1700000000 + 10 * rnd.randint(0, 10 ** 5) + 9
            base = nw - nw % 10
            ptsd = [(base + i, fbits(float(rnd.randint(1, 9)))) for i in rnd.sample(range(10), j)]
            for wr in ('whispertool', 'go-whisper'):
                ll = []
                if wr == 'whispertool':
                    ll += ["create f %s m %d x %08x" % (fmt_layout(lay), m, xd), "many f -1 %d %d %s" % (nw, len(ptsd), " ".join("%d %016x" % tv for tv in ptsd)), "sync f"]
                    ll += ["dfetch f %d %d %d %d" % (a_, nw - lay[a_][0] * lay[a_][1] + 1, nw, nw) for a_ in range(len(lay))]      # the file whispertool wrote is the one the model (and the reference writer) writes
                    ll += ["drop f"]
                else:
                    ll += ["gwcreate f %s m %d x %08x" % (fmt_layout(lay), m, xd), "gwmany f %d %d %s" % (nw, len(ptsd), " ".join("%d %016x" % tv for tv in ptsd)), "gwclose f"]
                ll += ["clixread f %d %d %d" % (nw - 95, nw, nw), "clixread f %d %d %d" % (nw - 9, nw, nw)]
                cases.append({'id': 'c06-%d-xff-%s' % (c, wr[:2]), 'lines': ll, 'tags': {'layout': 'tens_exact', 'writer': wr + '_decimal_xff', 'levels': len(lay), 'method': m}})
        if c % 16 == 3:
            # ONE batch over three (or four) consecutive intervals of the coarser archive of which the middle one stays
            # below the xFilesFactor: consolidated, not consolidated, consolidated -- each stored aggregate sits in
            # the slot its own interval names (both writers; every archive read back by both readers)
            ratio = rnd.pick([5, 10])
            lay = [(1, 6 * ratio), (ratio, 12)] + ([(ratio * 4, 6)] if rnd.chance(0.4) else [])
            nw = 1700000000 + ratio * 4 * rnd.randint(0, 10 ** 5) + 4 * ratio - 1        # the last second of a coarser interval
            base = nw - nw % ratio - 3 * ratio
            ptsm = []
            for iv, known in enumerate([ratio - 1, 1, ratio - 2, ratio]):
                ptsm += [(base + iv * ratio + o_, fbits(float(rnd.randint(1, 99)))) for o_ in sorted(rnd.sample(range(ratio), known))]
            for wr in ('whispertool', 'go-whisper'):
                ll = []
                if wr == 'whispertool':
                    ll += ["create f %s m %d x 3f000000" % (fmt_layout(lay), m), "many f -1 %d %d %s" % (nw, len(ptsm), " ".join("%d %016x" % tv for tv in ptsm)), "sync f"]
                    ll += ["dfetch f %d %d %d %d" % (a_, nw - lay[a_][0] * lay[a_][1] + 1, nw, nw) for a_ in range(len(lay))]
                    ll += ["raw f %d" % a_ for a_ in range(len(lay))]
                    ll += ["drop f"]
                else:
                    ll += ["gwcreate f %s m %d x 3f000000" % (fmt_layout(lay), m), "gwmany f %d %d %s" % (nw, len(ptsm), " ".join("%d %016x" % tv for tv in ptsm)), "gwclose f"]
                ll += ["clixread f %d %d %d" % (nw - lay[a_][0] * lay[a_][1] + 1, nw, nw) for a_ in range(len(lay))]
                ll += ["clixread f %d %d %d" % (base - 1, nw, nw)]
                cases.append({'id': 'c06-%d-midsparse-%s' % (c, wr[:2]), 'lines': ll, 'tags': {'layout': 'midsparse%d' % ratio, 'writer': wr + '_midsparse', 'levels': len(lay), 'method': m}})
        if c % 8 == 1:
            # a file written (by either writer) around the wall clock and read by the view command through a server
            # and through the directory: the reference reader's values, at the times the file holds
            lay = [(1, 30), (5, 24)] if rnd.chance(0.5) else [(1, 60)]
            wr = rnd.pick(['gw', 'wt'])
            ptsw = [("@-%d" % rnd.randint(0, 25), fbits(float(rnd.randint(1, 99)))) for _j in range(rnd.randint(2, 8))]
            if wr == 'gw':
                ll = ["gwcreate f %s m 2 x 3f000000" % fmt_layout(lay), "gwmany f @ %d %s" % (len(ptsw), " ".join("%s %016x" % tv for tv in ptsw)), "gwclose f"]
            else:
                ll = ["create f %s m 2 x 3f000000" % fmt_layout(lay), "many f -1 @ %d %s" % (len(ptsw), " ".join("%s %016x" % tv for tv in ptsw)), "sync f", "drop f"]
            ll += ["clixread f @-29 @ @", "cliview src=.:f from=0 until=0 archive=%d header=1 remote=1" % rnd.pick([-1, 0]), "cliview src=.:f from=0 until=0 archive=-1 header=1 remote=0",
                   "cliview src=.:f from=@-20 until=@-3 archive=0 header=0 remote=1"]
            cases.append({'id': 'c06-%d-remote' % c, 'lines': ll, 'tags': {'layout': 'wallclock', 'writer': {'gw': 'go-whisper', 'wt': 'whispertool'}[wr] + '_read_remotely', 'levels': len(lay), 'method': 2}})
        if rnd.chance(0.08):
            # a file written by the copy command with nothing to copy (never-written source, missing destination):
            # it is a complete classic file all the same (header on disk, every slot empty)
            lc = ','.join([str(k)] + ['%d,%d' % sn for sn in layout])
            ll = ["create s/a.wsp %s m %d x %08x" % (fmt_layout(layout), m, xff), "sync s/a.wsp", "drop s/a.wsp",
                  "clicopy src=s:a.wsp dest=d:a.wsp from=0 until=0 archive=-1 copynan=%d m=%d x=%08x layout=%s" % (rnd.pick([0, 1]), m, xff, lc),
                  "hdrof d/a.wsp", "clixread d/a.wsp %d %d %d" % (max(now - rets[0], 0), now, now)]
            cases.append({'id': 'c06-%d-emptycopy' % c, 'lines': ll, 'tags': {'layout': lname, 'writer': 'whispertool_copy_of_nothing', 'levels': k, 'method': m}})
        if rnd.chance(0.1) and k >= 2:
            # two files created from one list value, written one after the other with single updates at
            # different clock positions: each is the classic file of its own history
            now2 = now + rnd.randint(1, 3 * layout[0][0] + 7)
            ll = ["createshared f g %s m %d x %08x" % (fmt_layout(layout), m, xff),
                  "upd f -1 %d %016x %d" % (now - rnd.randint(0, layout[0][0] * 2), value(rnd, False), now),
                  "upd g -1 %d %016x %d" % (now2 - rnd.randint(0, layout[0][0] * 2), value(rnd, False), now2),
                  "upd g -1 %d %016x %d" % (now2, value(rnd, False), now2),
                  "sync f", "sync g", "drop f", "drop g",
                  "clixread f %d %d %d" % (max(now2 - rets[0], 0), now2, now2), "clixread g %d %d %d" % (max(now2 - rets[0], 0), now2, now2),
                  "clixread g %d %d %d" % (max(now2 - rets[-1] + 1, 0), now2, now2)]
            ll += ["open g"] + ["dfetch g %d %d %d %d" % (a_, now2 - layout[a_][0] * layout[a_][1] + 1, now2, now2) for a_ in range(k)] + ["raw g 0"]
            cases.append({'id': 'c06-%d-shared' % c, 'lines': ll, 'tags': {'layout': lname, 'writer': 'whispertool_shared_list', 'levels': k, 'method': m}})
        if writer == 'whispertool' and rnd.chance(0.12):
            # created again over the file that is there, with a smaller (or larger) layout: the new file is
            # exactly as long as its header says
            other = rnd.pick([[(layout[0][0], max(layout[0][1] // 2, 1))], [(s_, nn + 3) for s_, nn in layout], layout[:1], [(1, 3)]])
            cases.append({'id': 'c06-%d-recreate' % c, 'lines': ["create f %s m %d x %08x" % (fmt_layout(layout), m, xff), "sync f", "drop f",
                                                                "recreate f %s m %d x %08x" % (fmt_layout(other), m, xff), "hdrof f"],
                          'tags': {'layout': lname, 'writer': 'whispertool_recreate', 'levels': k, 'method': m}})
        if k >= 2 and rnd.chance(0.15):
            # the same archives declared in another order: whispertool writes no file for such a list
            # (the reference implementation would sort it; a file with a header describing another
            # order than its own would not be read alike by the two)
            sh = list(layout)
            while sh == list(layout):
                rnd.shuffle(sh)
            cases.append({'id': 'c06-%d-order' % c, 'lines': ["create f %s m %d x %08x" % (fmt_layout(sh), m, xff), "hdrof f"],
                          'tags': {'layout': lname, 'writer': 'whispertool_unsorted', 'levels': k, 'method': m}})
    if thorough:
        # an archive of more than 16 MiB of slots read in one window (a fetch, through a fresh handle, and
        # after a second lap position): what was stored is what is read, wherever it lies in the file
        N = 1500000
        nw = 1700000000 + rnd.randint(0, 10 ** 6)
        offs = sorted(set([0, 1, 100, N - 1, N - 2, 1398100, 1398101, 1398102, 1398103, 2796202, 300000] + [rnd.randrange(N) for _ in range(12)]), reverse=True)
        offs = [o for o in offs if o < N]
        pts = " ".join("%d %016x" % (nw - o, fbits(float(i + 1))) for i, o in enumerate(offs))
        lines = ["create f 1 1 %d m 2 x 3f000000" % N, "many f 0 %d %d %s" % (nw, len(offs), pts), "fetchk f 0 %d %d %d" % (nw - N, nw, nw),
                 "fetchk f 0 %d %d %d" % (nw - 1398200, nw, nw), "sync f", "open f", "fetchk f -1 %d %d %d" % (nw - N, nw, nw)]
        cases.append({'id': 'c06-huge', 'lines': lines, 'tags': {'layout': 'huge_1500000', 'writer': 'whispertool', 'levels': 1, 'method': 2}})
    return cases


GENS.update({'C15': gen_c15, 'C06': gen_c06})
