"""Case generators for the binary codec (C14), hostile bytes (C15) and layout validation (C07)."""
import struct
from common import *


def be32(x):
    return struct.pack('>I', x & 0xffffffff)


def be64(x):
    return struct.pack('>Q', x & 0xffffffffffffffff)


def hx(b):
    return b.hex() if b else '-'


def enc_header_py(m, xff, layout, maxret=None, offsets=None):
    k = len(layout)
    off = 16 + 12 * k
    body = b''
    offs = []
    for s, n in layout:
        offs.append(off)
        off += 12 * n
    if offsets:
        offs = offsets
    for (s, n), o in zip(layout, offs):
        body += be32(o) + be32(s) + be32(n)
    if maxret is None:
        maxret = layout[-1][0] * layout[-1][1] if layout else 0
    return be32(m) + be32(maxret) + be32(xff) + be32(k) + body


def any_value(rnd):
    r = rnd.random()
    if r < 0.3:
        return rnd.pick(NAN_VALUES + SPECIAL_VALUES)
    if r < 0.6:
        return small_value(rnd)
    return rnd.getrandbits(64)


def any_time(rnd):
    return rnd.pick([0, 1, 2 ** 31 - 1, 2 ** 31, 2 ** 32 - 1, rnd.getrandbits(32), 1600000000 + rnd.randint(0, 10 ** 8)])


def gen_object(rnd):
    """-> (kind, 'enc ...' line, encoding bytes)"""
    kind = rnd.pick(['ts', 'dur', 'val', 'point', 'points', 'points', 'series', 'series', 'series', 'header', 'header', 'ainfo'])
    if kind == 'ts':
        t = any_time(rnd)
        return kind, 'enc ts %d' % t, be32(t)
    if kind == 'dur':
        d = rnd.pick([0, 1, -1, 2 ** 31 - 1, -2 ** 31, rnd.randint(-2 ** 31, 2 ** 31 - 1), 60, 86400])
        return kind, 'enc dur %d' % d, be32(d)
    if kind == 'val':
        v = any_value(rnd)
        return kind, 'enc val %016x' % v, be64(v)
    if kind == 'point':
        t, v = any_time(rnd), any_value(rnd)
        return kind, 'enc point %d %016x' % (t, v), be32(t) + be64(v)
    if kind == 'points':
        n = rnd.pick([0, 1, 2, 3, 7, rnd.randint(0, 40)])
        pts = [(any_time(rnd), any_value(rnd)) for _ in range(n)]
        line = 'enc points %d %s' % (n, ' '.join('%d %016x' % p for p in pts))
        return kind, line.strip(), be64(n) + b''.join(be32(t) + be64(v) for t, v in pts)
    if kind == 'series':
        step = rnd.pick([1, 1, 10, 60, 300, 86400, rnd.randint(1, 100000), 2 ** 31 - 1])
        n = rnd.pick([0, 1, 2, 3, 8, rnd.randint(0, 50)])
        fr = rnd.pick([0, 1, 1600000000, rnd.getrandbits(31)])
        un = fr + n * step + rnd.pick([0, 0, rnd.randint(0, step - 1)])
        if rnd.chance(0.25):
            # spans of 2^31 seconds and more (the difference does not fit an int32 Duration)
            step = rnd.pick([2 ** 31 - 1, 2 ** 30, 10 ** 9, 2 ** 29 + 1, 715827883])
            fr = rnd.pick([0, 1, 10 ** 9, rnd.getrandbits(30)])
            n = rnd.randint(1, 4)
            while fr + n * step >= 2 ** 32:
                n -= 1
            n = max(n, 0)
            un = min(fr + n * step + rnd.pick([0, 0, 1, step - 1]), 2 ** 32 - 1)
        if un >= 2 ** 32:
            fr, un = 0, n * step
            if un >= 2 ** 32:
                n = 1; un = step
        vs = [any_value(rnd) for _ in range(n)]
        line = 'enc series %d %d %d %d %s' % (fr, un, step, n, ' '.join('%016x' % v for v in vs))
        return kind, line.strip(), be32(fr) + be32(un) + be32(step) + b''.join(be64(v) for v in vs)
    if kind == 'ainfo':
        s, n = rnd.pick([1, 60, 2 ** 31 - 1, -1, 0]), rnd.pick([0, 1, 100, 2 ** 32 - 1])
        return kind, 'enc ainfo %d %d' % (s, n), be32(0) + be32(s) + be32(n)
    lname, layout = pick_layout(rnd, random_share=0.6)
    m, xff = rnd.pick(METHODS), rnd.pick(XFF_VALID)
    return kind, 'enc header %d %08x %s' % (m, xff, fmt_layout(layout)), enc_header_py(m, xff, layout)


def gen_c14(rnd, n, thorough=False):
    cases = []
    for c in range(n):
        kind, line, enc = gen_object(rnd)
        lines = [line]
        total = len(enc)
        if total <= (400 if thorough else 80):
            ks = list(range(total))
        else:
            ks = sorted(set([0, 1, 3, 4, 7, 8, 11, 12, 15, 16, 17, 27, 28, total - 9, total - 8, total - 1]
                            + [rnd.randrange(total) for _ in range(12)]))
            ks = [k for k in ks if 0 <= k < total]
        for k in ks:
            lines.append('dec %s %s' % (kind, hx(enc[:k])))
        trailer = bytes(rnd.getrandbits(8) for _ in range(rnd.pick([0, 1, 3, 8, 20])))
        lines.append('dec %s %s' % (kind, hx(enc + trailer)))
        # a second message right behind the first one
        kind2, line2, enc2 = gen_object(rnd)
        lines.append(line2)
        lines.append('dec %s %s' % (kind, hx(enc + enc2)))
        lines.append('dec %s %s' % (kind2, hx(enc2 + trailer)))
        cases.append({'id': 'c14-%d' % c, 'lines': lines, 'tags': {'kind': kind, 'prefixes': len(ks), 'size': min(total // 50 * 50, 500)}})
    return cases


GENS = {'C14': gen_c14}
