"""Case generators for exclusive access (C13) and concurrent reads (C17)."""
from common import *
from gens_codec import hx, image_py, enc_header_py
from gens_cli import fill_ops, CLI_LAYOUTS, lay_csv, observe_all


from gens_concur_lines import waitopen_lines


def gen_c13(rnd, n, thorough=False):
    cases = []
    for c in range(n):
        kind = rnd.pick(['failed_open', 'failed_open', 'block', 'proc', 'sessions', 'waitopen', 'childhold', 'dblclose', 'lockcreate', 'recreatewait'])
        if c == 3:
            kind = 'copysession'
        if c == 4:
            kind = 'gensession'
        if c == 5:
            kind = 'rawduring'
        if c == 6:
            kind = 'abortheld'
        if c == 7:
            kind = 'viewerrheld'
        lines = []
        if kind == 'failed_open':
            # every way Open can fail after the descriptor was obtained (and a control that succeeds)
            lname, layout = pick_layout(rnd, ['ring2', 'three', 'tens', 'single5', 'multipage'], random_share=0.2, max_points=30)
            m, xff = rnd.pick(METHODS), rnd.pick(XFF_VALID)
            img = image_py(m, xff, layout)
            k = len(layout)
            variant = rnd.pick(['short6', 'zeros', 'bad_method', 'bad_xff', 'trunc_meta', 'trunc_ainfo', 'trunc_data', 'trunc_data_1', 'no_archives',
                                'bad_offset', 'valid', 'random', 'empty'])
            if variant == 'short6': b = img[:6]
            elif variant == 'zeros': b = bytes(len(img))
            elif variant == 'bad_method': b = b'\x00\x00\x00\x09' + img[4:]
            elif variant == 'bad_xff': b = img[:8] + b'\x7f\xc0\x00\x00' + img[12:]
            elif variant == 'trunc_meta': b = img[:rnd.randint(7, 15)]
            elif variant == 'trunc_ainfo': b = img[:16 + rnd.randint(0, 12 * k - 1)]
            elif variant == 'trunc_data': b = img[:16 + 12 * k + rnd.randint(0, len(img) - 16 - 12 * k - 1)]
            elif variant == 'trunc_data_1': b = img[:-1]
            elif variant == 'no_archives': b = img[:12] + b'\x00\x00\x00\x00'
            elif variant == 'bad_offset': b = img[:16] + b'\x00\x00\x00\x11' + img[20:]
            elif variant == 'random': b = bytes(rnd.getrandbits(8) for _ in range(rnd.randint(1, 80)))
            elif variant == 'empty': b = b''
            else: b = img
            lines += ["rawfile f %s" % hx(b), "lockfail f", "lockfail f"]
            tags = {'kind': kind, 'variant': variant}
        elif kind in ('block', 'proc'):
            layout = [(1, 20), (5, 10)]
            lines += ["create f %s m 2 x 3f000000" % fmt_layout(layout), "sync f", "drop f", "lock%s f" % kind]
            tags = {'kind': kind}
        elif kind == 'waitopen':
            lines += waitopen_lines(rnd)
            tags = {'kind': kind}
        elif kind == 'dblclose':
            # a handle closed twice while another file's handle lives on the descriptor number it had
            layout = [(1, 20), (5, 10)]
            for nm in ('f', 'g'):
                lines += ["create %s %s m 2 x 3f000000" % (nm, fmt_layout(layout)), "sync %s" % nm, "drop %s" % nm]
            lines += ["dblclose f g", "dblclose g f", "lockblock g"]
            tags = {'kind': kind}
        elif kind == 'recreatewait':
            lines += waitopen_lines(rnd)[:-1] + ["recreatewait w", "lockblock w"]
            tags = {'kind': kind}
        elif kind == 'lockcreate':
            lines += ["lockcreate f", "lockblock f"]
            tags = {'kind': kind}
        elif kind == 'copysession':
            # a copy whose source is fetched from a server, and another session on its destination started
            # meanwhile: the two are serial -- the other session either found the destination as it was before
            # the copy (then the copy worked on its result) or as the copy left it
            layout = [(1, 30), (5, 12)]
            sp = [("@-%d" % j, fbits(float(10 + j))) for j in range(0, 20) if rnd.chance(0.7) or j in (3, 5)]
            dp = [(t, v) for t, v in sp if rnd.chance(0.8) or t == "@-5"]
            dp = [(t, fbits(77.0) if t == "@-3" else v) for t, v in dp] + ([("@-3", fbits(77.0))] if all(t != "@-3" for t, _ in dp) else [])
            for nm, pts in (('s/a.wsp', sp), ('d/a.wsp', dp)):
                lines += ["create %s %s m 2 x 3f000000" % (nm, fmt_layout(layout)),
                          "many %s 0 @ %d %s" % (nm, len(pts), " ".join("%s %016x" % tv for tv in pts)), "sync %s" % nm, "drop %s" % nm]
            lines.append("clicopy src=s:a.wsp dest=d:a.wsp from=0 until=0 archive=-1 copynan=0 m=2 x=3f000000 layout=%s remote=1 intruder=@-3:%016x,@-5:%016x watch=@-3" % (
                lay_csv(layout), fbits(100.0), fbits(200.0)))
            observe_all(lines, 'd/a.wsp', layout)
            tags = {'kind': kind}
        elif kind == 'abortheld':
            # a request for a held file whose client goes away: afterwards the file is free again
            wl = waitopen_lines(rnd)
            lines += wl[:-1] + ["abortheld w", "lockblock w"]
            tags = {'kind': kind}
        elif kind == 'viewerrheld':
            # a request the server cannot answer (no such archive): when the answer has arrived the file is free
            wl = waitopen_lines(rnd)
            lines += wl[:-1] + ["viewerrheld w path=view archive=%d" % rnd.pick([7, 9]), "viewerrheld w path=view-raw archive=%d" % rnd.pick([7, 9]), "lockblock w"]
            tags = {'kind': kind}
        elif kind == 'rawduring':
            # a raw view started in the middle of a writer's session shows a session boundary
            wl = waitopen_lines(rnd)
            lines += wl[:-1] + ["rawduring w %s" % wl[-1].split()[-1]]
            tags = {'kind': kind}
        elif kind == 'gensession':
            # two generate commands for one missing path, overlapping: exactly one creates the file
            lines += ["cligen2 dest=g/x.wsp layout=%s stagger=%d" % (lay_csv([(1, rnd.pick([200000, 220000])), (60, 10000)]), rnd.pick([20, 30, 40])), "lockblock g/x.wsp"]
            tags = {'kind': kind}
        elif kind == 'childhold':
            layout = [(1, 20), (5, 10)]
            lines += ["create f %s m 2 x 3f000000" % fmt_layout(layout), "sync f", "drop f", "childhold f"]
            tags = {'kind': kind}
        else:
            layout = [(1, rnd.pick([400, 700, 1200]))]          # several 4 KiB pages
            now = 1700000000 + rnd.randint(0, 10 ** 6)
            w, r, readers = rnd.randint(2, 4), rnd.randint(2, 5), rnd.randint(1, 3)
            lines += ["create f %s m 2 x 3f000000" % fmt_layout(layout), "sync f", "drop f", "sessions f %d %d %d %d" % (w, r, readers, now)]
            tags = {'kind': kind, 'sessions': w * r}
        cases.append({'id': 'c13-%d' % c, 'lines': lines, 'tags': tags})
    # two copy commands into ONE existing destination, under way at the same time (both sources are kept locked for
    # a moment), each with something to write: no value of either source is lost
    for j_ in range(2):
        layout = [(1, 40), (5, 24)] if j_ == 0 else [(1, 400)]
        ll = []
        for nm, offs in (('s/a.wsp', range(3, 23, 2)), ('s/b.wsp', range(4, 24, 2)), ('d/x.wsp', [30, 31])):
            pts = [("@-%d" % o, fbits(float(100 * (1 + ('ab'.find(nm[2]) if nm[0] == 's' else 5)) + o))) for o in offs]
            ll += ["create %s %s m 2 x 00000000" % (nm, fmt_layout(layout)),
                   "many %s 0 @ %d %s" % (nm, len(pts), " ".join("%s %016x" % tv for tv in pts)), "sync %s" % nm, "drop %s" % nm]
        ll.append("clicopy2 s/a.wsp s/b.wsp d/x.wsp")
        cases.append({'id': 'c13-copy2-%d' % j_, 'lines': ll, 'tags': {'kind': 'two_copies_one_destination'}})
    return cases


def gen_c17(rnd, n, thorough=False):
    cases = []
    for c in range(n):
        kind = rnd.pick(['confetch', 'confetch', 'sum', 'http'])
        if c == 1:
            kind = 'sum_many'
        if c == 2:
            kind = 'sum'       # with a reader that waits more than a second for its file
        lines = []
        if c == 6:
            # four files of 9000 slots each, read concurrently; at some instants the values are 5, +Inf, -Inf, 1 and
            # 1e16, 1, 1, 1: the sum is the fold in the order of the files, whatever the number of workers
            lay = [(1, 9000)]
            vals = [[5.0, float('inf'), float('-inf'), 1.0], [1e16, 1.0, 1.0, 1.0], [1.0, 1e16, -1e16, 1.0]]
            for j in range(4):
                nm = 's/i1/f%d.wsp' % j
                pts = " ".join("@-%d %016x" % (10 + 100 * q, fbits(vals[q][j])) for q in range(3)) + " @-%d %016x" % (8000 + j, fbits(float(j)))
                lines += ["create %s %s m 2 x 3f000000" % (nm, fmt_layout(lay)), "many %s 0 @ 4 %s" % (nm, pts), "sync %s" % nm, "drop %s" % nm]
            lines.append("clisum base=s item=i1 src=*.wsp from=0 until=0 archive=-1 header=0")
            cases.append({'id': 'c17-%d' % c, 'lines': lines, 'tags': {'kind': 'sum_grouping'}})
            continue
        if kind == 'sum_many':
            # more files than any worker pool, read concurrently: all good, then every read failing
            # (an archive the files do not have), then a few unreadable files among them: the sum
            # returns what each file read alone gives -- a sum or an error -- and does return
            layout = [(1, 6), (3, 4)]
            nfiles = rnd.randint(20, 40)
            bad = rnd.sample(range(nfiles), rnd.randint(1, 3))
            for j in range(nfiles):
                nm = 's/i1/f%02d.wsp' % j
                if j in bad:
                    lines += ["create %s %s m 2 x 3f000000" % (nm, fmt_layout(layout)), "drop %s" % nm]
                else:
                    lines += fill_ops(rnd, nm, layout, 2, 0x3f000000, density=0.5, inconsistent=False)
            lines.append("clisum base=s item=i1 src=f*.wsp from=0 until=0 archive=5 header=1")
            lines.append("clisum base=s item=i1 src=f*.wsp from=0 until=0 archive=-1 header=1")
            cases.append({'id': 'c17-%d' % c, 'lines': lines, 'tags': {'kind': kind}})
            continue
        if kind == 'confetch':
            lname, layout = pick_layout(rnd, ['multipage', 'multipage3', 'three', 'tens'], random_share=0.2, max_points=300)
            k = len(layout)
            m, xff = rnd.pick(METHODS), rnd.pick(XFF_VALID)
            now = clock_in_domain(rnd, layout)
            lines.append("create f %s m %d x %08x" % (fmt_layout(layout), m, xff))
            for a, (S, N) in enumerate(layout):
                pts = [(now - j * S, small_value(rnd)) for j in range(N) if rnd.chance(0.7)]
                if pts:
                    lines.append("many f %d %d %d %s" % (a, now, len(pts), " ".join("%d %016x" % tv for tv in pts)))
            # a fresh handle: no page is cached yet (sometimes one that holds no lock and was opened for reading only)
            lines += ["sync f", "openro f" if rnd.chance(0.35) else "open f"]
            lines.append("confetch f %d %d %d %d" % (rnd.randint(2, 8), rnd.randint(5, 20), rnd.getrandbits(31), now))
            # afterwards the handle still answers like the model
            for a in range(k):
                fr, un = windows(rnd, layout, a, now, 1)[0]
                lines.append("fetch f %d %d %d %d" % (a, fr, un, now))
        elif kind == 'sum':
            layout = CLI_LAYOUTS[rnd.pick(['two_1s', 'two_2s', 'three_2s'])]
            m = rnd.pick(METHODS)
            nfiles = rnd.randint(3, 8)
            for j in range(nfiles):
                lines += fill_ops(rnd, 's/i1/f%d.wsp' % j, layout, rnd.pick(METHODS), rnd.pick([0, 0x3f000000, 0x3e800000]), density=0.7, inconsistent=False)
            for j, v in enumerate([1e16, -1e16, 1.0]):
                lines += ["open s/i1/f%d.wsp" % j, "many s/i1/f%d.wsp 0 @ 1 @-%d %016x" % (j, layout[0][0], fbits(v)), "sync s/i1/f%d.wsp" % j, "drop s/i1/f%d.wsp" % j]
            fresh = rnd.chance(0.5)
            if fresh:
                # the first file in glob order was never written (its archives read as all-NaN): the sum
                # must not change what any later read of a never-written archive returns
                lines += ["create s/i1/a0.wsp %s m 2 x 3f000000" % fmt_layout(layout), "sync s/i1/a0.wsp", "drop s/i1/a0.wsp",
                          "create s/i2/z.wsp %s m 2 x 3f000000" % fmt_layout(layout), "sync s/i2/z.wsp", "drop s/i2/z.wsp"]
            held = rnd.randrange(nfiles)
            lines.append("clisum base=s item=i1 src=*.wsp from=0 until=0 archive=-1 header=1 hold=s/i1/f%d.wsp:%d" % (held, 1300 if c == 2 else rnd.pick([100, 300])))
            if fresh:
                lines.append("cliview src=s:i2/z.wsp from=0 until=0 archive=-1 header=0")
                lines.append("clisum base=s item=i1 src=*.wsp from=0 until=0 archive=-1 header=1")
                lines.append("cliview src=s:i1/a0.wsp from=0 until=0 archive=-1 header=0")
        else:
            layout = CLI_LAYOUTS[rnd.pick(['two_1s', 'three_2s'])]
            for j in range(3):
                lines += fill_ops(rnd, 's/i1/f%d.wsp' % j, layout, 2, 0x3f000000, density=0.7, inconsistent=False)
            # (half of the time against a server in a process of its own that was given a relative base directory)
            lines.append("conhttp s/i1/f0.wsp %d @%s" % (rnd.randint(3, 8), rnd.pick(['', ' rel'])))
        cases.append({'id': 'c17-%d' % c, 'lines': lines, 'tags': {'kind': kind}})
    # many overlapping requests for different parts (archives, windows, raw dumps) of ONE file of several pages
    big = [(1, 2000), (10, 600)]
    ll = ["create s/i1/big.wsp %s m 2 x 00000000" % fmt_layout(big),
          "many s/i1/big.wsp -1 @ %d %s" % (400, " ".join("@-%d %016x" % (q * 5, fbits(float(q) + 0.25)) for q in range(400))),
          "sync s/i1/big.wsp", "drop s/i1/big.wsp", "conhttp s/i1/big.wsp 3 @ rounds=%d" % (60 if not thorough else 400)]
    cases.append({'id': 'c17-onefile', 'lines': ll, 'tags': {'kind': 'server_one_file_many_requests'}})
    return cases


GENS = {'C13': gen_c13, 'C17': gen_c17}
