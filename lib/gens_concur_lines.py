"""Shared scenario: an Open that has to wait for a writer (used by C01, C05, C13)."""
from common import *


def waitopen_lines(rnd):
    """a multi-page single-archive file, partly filled, then an Open that has to wait for a writer"""
    layout = [(1, rnd.pick([400, 700, 1200]))]
    now = 1700000000 + rnd.randint(0, 10 ** 6)
    pts = [(now - j, small_value(rnd)) for j in range(layout[0][1]) if rnd.chance(0.5)]
    return ["create w %s m 2 x 3f000000" % fmt_layout(layout),
            "many w 0 %d %d %s" % (now, len(pts), " ".join("%d %016x" % tv for tv in pts)), "sync w", "drop w", "waitopen w %d" % now]
