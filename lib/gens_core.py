"""Case generators for the library core (C01-C05): operation histories with explicit clocks."""
from common import *


def _create(name, layout, m, xff):
    return "create %s %s m %d x %08x" % (name, fmt_layout(layout), m, xff)


def _many(name, ident, now, pts):
    return "many %s %d %d %d %s" % (name, ident, now, len(pts), " ".join("%d %016x" % tv for tv in pts))


def _observe(rnd, lines, layout, arcs, now, nwin=3, raw=True, name='f', op='fetch'):
    for a in arcs:
        for fr, un in windows(rnd, layout, a, now, nwin):
            lines.append("%s %s %d %d %d %d" % (op, name, a, fr, un, now))
        if raw and 0 <= a < len(layout) and op == 'fetch':
            lines.append("raw %s %d" % (name, a))


def _shared_cases(rnd, prefix, routed):
    """Two files created from ONE archive list value and written one after the other at different ring
    phases; each is then read through a fresh handle (every archive, whole retention)."""
    cases = []
    for j in range(4):
        lname, layout = pick_layout(rnd, ['ring2', 'three', 'four', 'tens', 'short3', 'ratioN'], random_share=0.4, levels=rnd.pick([2, 3]))
        if len(layout) < 2:
            lname, layout = 'three', list(FIXED_LAYOUTS['three'])
        k = len(layout)
        S0, N0 = layout[0]
        R0 = S0 * N0
        Rmax = layout[-1][0] * layout[-1][1]
        now = clock_in_domain(rnd, layout)
        lines = ["createshared f g %s m %d x %08x" % (fmt_layout(layout), rnd.pick([1, 2, 3]), rnd.pick([0, 0, 0x3f000000]))]
        for nm in ('f', 'f', 'g', 'g', 'f', 'g'):
            now = advance(rnd, now, layout)
            if routed:
                pts = [(now - rnd.randint(0, Rmax - 1), small_value(rnd)) for _ in range(rnd.randint(1, 4))]
                lines.append(_many(nm, -1, now, pts) if rnd.chance(0.5) else "upd %s -1 %d %016x %d" % (nm, pts[0][0], pts[0][1], now))
            else:
                pts = [(now - rnd.randint(0, R0 - 1), small_value(rnd)) for _ in range(rnd.randint(1, 4))]
                lines.append(_many(nm, 0, now, pts) if rnd.chance(0.5) else "upd %s 0 %d %016x %d" % (nm, pts[0][0], pts[0][1], now))
        lines += ["sync f", "sync g", "open f", "open g"]
        for nm in ('f', 'g'):
            for a_ in range(k):
                lines.append("fetch %s %d %d %d %d" % (nm, a_, now - layout[a_][0] * layout[a_][1], now, now))
        # and one more write through the fresh handle of the later file: what it aggregates is what the file held
        now = advance(rnd, now, layout)
        lines.append("upd g %d %d %016x %d" % (-1 if routed else 0, now, fbits(3.0), now))
        for a_ in range(k):
            lines.append("fetch g %d %d %d %d" % (a_, now - layout[a_][0] * layout[a_][1], now, now))
        cases.append({'id': '%s-shared-%d' % (prefix, j), 'lines': lines, 'tags': {'layout': lname, 'levels': k, 'method': 0, 'xff': 'mixed', 'fill': 'shared',
                                                                               'boundary_ages': 0, 'stale_points': 0, 'ops': {'shared_list': 1}}})
    return cases


def gen_c01(rnd, n, thorough=False):
    """Ring storage in isolation: all writes go to one named archive with ages inside its
    retention (routing trivial, no propagation into the observed archives); observed are that
    archive and every finer one (which must stay untouched)."""
    cases = []
    for c in range(n):
        lname, layout = pick_layout(rnd, max_points=60 if thorough else 30)
        k = len(layout)
        a = rnd.randrange(k)
        S, N = layout[a]
        R = S * N
        m, xff = rnd.pick(METHODS), rnd.pick(XFF_VALID)
        now = clock_in_domain(rnd, layout)
        lines = [_create('f', layout, m, xff)]
        tags = {'layout': lname, 'levels': k, 'target': a, 'ops': {}}
        nops = rnd.randint(1, 40 if thorough else 16)
        written = []
        for _ in range(nops):
            now = advance(rnd, now, layout)
            r = rnd.random()
            if r < 0.4:
                age = rnd.pick([0, 1, S - 1, S, R - 1, R - S, rnd.randint(0, R - 1), rnd.randint(0, R - 1)])
                age = min(max(age, 0), R - 1)
                t = now - age
                if written and rnd.chance(0.25):
                    t0 = rnd.pick(written)
                    for cand in (t0 + R, t0, t0 + R - S):      # lapping partner of an earlier write
                        if now - R < cand <= now:
                            t = cand
                            break
                lines.append("upd f %d %d %016x %d" % (a, t, value(rnd), now))
                written.append(t)
                tags['ops']['upd'] = tags['ops'].get('upd', 0) + 1
            elif r < 0.85:
                cnt = rnd.pick([1, 1, 2, 3, 5, 8, 13, 30 if thorough else 8])
                pts = []
                for _j in range(cnt):
                    age = rnd.pick([0, S - 1, S, R - 1, rnd.randint(0, R - 1), rnd.randint(0, R - 1)])
                    age = min(max(age, 0), R - 1)
                    t = now - age
                    if rnd.chance(0.08):
                        t = now + rnd.randint(1, 2 * S)       # a batch stores future points
                    pts.append((t, value(rnd)))
                    if rnd.chance(0.2):
                        pts.append((rnd.pick(pts)[0], value(rnd)))
                if rnd.chance(0.2):
                    # a point that has just expired (by less than one step): it is not stored, and it leaves
                    # the newest slot (the one it would lap onto) alone
                    lines.append("upd f %d %d %016x %d" % (a, now, value(rnd, False), now))
                    pts.insert(rnd.randrange(len(pts) + 1), (now - R - rnd.randint(0, max(S - 1, 0)), value(rnd, False)))
                    tags['ops']['just_expired'] = tags['ops'].get('just_expired', 0) + 1
                lines.append(_many('f', a, now, pts))
                written += [t for t, _ in pts]
                tags['ops']['many'] = tags['ops'].get('many', 0) + 1
            elif r < 0.89 and a == k - 1:
                # a write into the current interval, then one exactly as old as the file's retention (one lap
                # behind, the same slot): it is refused and the slot keeps the live value
                lines.append("upd f %d %d %016x %d" % (a, now, value(rnd, False), now))
                lines.append("upd f %d %d %016x %d" % (rnd.pick([a, -1]), now - R, value(rnd, False), now))
                written.append(now)
                tags['ops']['lap_boundary'] = tags['ops'].get('lap_boundary', 0) + 1
            elif r < 0.89 and a < k - 1:
                # a batch of exactly ONE point that has just expired for this archive but not for the file (one
                # lap behind a live slot): named archive -> dropped; best archive, age exactly the retention ->
                # it belongs to the next coarser archive; either way the live slot keeps its value
                lines.append("upd f %d %d %016x %d" % (a, now, value(rnd, False), now))
                if rnd.chance(0.5):
                    lines.append(_many('f', a, now, [(now - R - rnd.randint(0, max(S - 1, 0)), value(rnd, False))]))
                else:
                    lines.append(_many('f', -1, now, [(now - R, value(rnd, False))]))
                written.append(now)
                tags['ops']['single_expired_batch'] = tags['ops'].get('single_expired_batch', 0) + 1
            elif r < 0.93:
                lines.append("sync f")
                lines.append("open f")
                tags['ops']['reopen'] = tags['ops'].get('reopen', 0) + 1
            else:
                now = min(now + R + rnd.randint(0, R), (TMAX if now < TMAX else 2 ** 32 - 64 - retentions(layout)[-1]) - 2 * retentions(layout)[-1] - 1)
                tags['ops']['jump'] = tags['ops'].get('jump', 0) + 1
            _observe(rnd, lines, layout, list(range(0, a + 1)), now, nwin=3)
        cases.append({'id': 'c01-%d' % c, 'lines': lines, 'tags': tags})
    # a handle whose Open had to wait for another handle: it shows what that handle left (every slot, also those
    # on the page that holds the header)
    from gens_concur_lines import waitopen_lines
    for j in range(2):
        cases.append({'id': 'c01-waitopen-%d' % j, 'lines': waitopen_lines(rnd), 'tags': {'layout': 'multipage-single', 'levels': 1, 'target': 0, 'ops': {'waiting_opener': 1}}})
    # dense batches that run over the end of the ring exactly at (and next to) a multiple of a chunk of slots
    # (a page of 4096 bytes holds 341 slots and a bit; other plausible chunk sizes): every point lands in its slot
    for j, chunk in enumerate([341, rnd.pick([170, 256, 512, 682, 1024, 1365])]):
        N = 2 * chunk + rnd.randint(20, 60)
        t0 = 1700000000 + rnd.randint(0, 10 ** 6)
        kk = rnd.pick([1, 1, 2])
        i0 = N - kk * chunk + (0 if j == 0 else rnd.pick([0, 0, 1, -1]))
        cnt = kk * chunk + rnd.randint(2, 15)
        nw = t0 + i0 + cnt - 1
        pts = [(t0 + i0 + q, fbits(float(q % 97))) for q in range(cnt)]
        if rnd.chance(0.5):
            pts.reverse()
        lines = ["create f 1 1 %d m 2 x 3f000000" % N, "upd f 0 %d %016x %d" % (t0, fbits(5.0), t0), _many('f', rnd.pick([0, -1]), nw, pts),
                 "fetch f 0 %d %d %d" % (nw - N, nw, nw), "sync f", "open f", "fetch f 0 %d %d %d" % (nw - N, nw, nw)]
        cases.append({'id': 'c01-chunkwrap-%d' % j, 'lines': lines, 'tags': {'layout': 'ring%d' % N, 'levels': 1, 'target': 0, 'ops': {'chunk_wrap': 1}}})
    # after a sum whose first file (in name order) was never written while a later one holds data: a never-written
    # archive -- of that file, of another file, of a new file -- still reads as empty
    for j in range(2):
        lay = [(1, 30), (5, 12)] if j == 0 else [(1, 20)]
        ll = ["create s/i1/a0.wsp %s m 2 x 3f000000" % fmt_layout(lay), "sync s/i1/a0.wsp", "drop s/i1/a0.wsp",
              "create s/i1/f1.wsp %s m 2 x 3f000000" % fmt_layout(lay),
              "many s/i1/f1.wsp 0 @ 3 @ %016x @-2 %016x @-7 %016x" % (fbits(5.0), fbits(6.0), fbits(7.0)), "sync s/i1/f1.wsp", "drop s/i1/f1.wsp",
              "create s/i2/z.wsp %s m 2 x 3f000000" % fmt_layout(lay), "sync s/i2/z.wsp", "drop s/i2/z.wsp",
              "clisum base=s item=i1 src=*.wsp from=0 until=0 archive=-1 header=0 remote=%d" % j]
        ll.append("open s/i2/z.wsp")          # (the command closed the driver's handles)
        for a_ in range(len(lay)):
            ll.append("fetch s/i2/z.wsp %d @-%d @ @" % (a_, lay[a_][0] * lay[a_][1] - 1))
        ll += ["create g %s m 1 x 00000000" % fmt_layout(lay), "fetch g 0 @-15 @ @", "open s/i1/a0.wsp", "fetch s/i1/a0.wsp 0 @-15 @ @"]
        cases.append({'id': 'c01-aftersum-%d' % j, 'lines': ll, 'tags': {'layout': 'aftersum', 'levels': len(lay), 'target': 0, 'ops': {'fetch_after_sum': 1}}})
    # ONE slice of points handed to two batch writes, a coarser archive first, then a finer one (times that are
    # no multiples of the coarser step): the finer archive holds the points under their own intervals
    for j in range(4):
        lname, layout = pick_layout(rnd, ['three', 'four', 'tens', 'ring2', 'short3'], random_share=0.3, levels=rnd.pick([2, 3]), max_points=30)
        if len(layout) < 2:
            lname, layout = 'three', list(FIXED_LAYOUTS['three'])
        k = len(layout)
        fine = rnd.randrange(k - 1)
        coarse = rnd.randrange(fine + 1, k)
        Sf, Nf = layout[fine]
        now = clock_in_domain(rnd, layout)
        pts = [(now - rnd.randint(0, Sf * Nf - 1), small_value(rnd)) for _ in range(rnd.randint(2, 6))]
        lines = [_create('f', layout, rnd.pick(METHODS), rnd.pick(XFF_VALID)),
                 "manytwice f %d %d %d %d %s" % (coarse, fine, now, len(pts), " ".join("%d %016x" % tv for tv in pts))]
        for a_ in (fine, coarse):
            lines.append("fetch f %d %d %d %d" % (a_, now - layout[a_][0] * layout[a_][1], now, now))
            lines.append("raw f %d" % a_)
        cases.append({'id': 'c01-twice-%d' % j, 'lines': lines, 'tags': {'layout': lname, 'levels': k, 'target': fine, 'ops': {'one_slice_two_writes': 1}}})
    # two files created from ONE archive list value (as a command creating several destinations does), written
    # one after the other at different ring positions: each file holds its own writes, also for a fresh handle
    for j in range(6):
        lname, layout = pick_layout(rnd, max_points=30)
        k = len(layout)
        a = rnd.randrange(k)
        S, N = layout[a]
        R = S * N
        now = clock_in_domain(rnd, layout)
        lines = ["createshared f g %s m %d x %08x" % (fmt_layout(layout), rnd.pick(METHODS), rnd.pick(XFF_VALID))]
        for nm in ('f', 'g', 'f', 'g'):
            now = advance(rnd, now, layout)
            pts = [(now - rnd.randint(0, R - 1), value(rnd)) for _ in range(rnd.randint(1, 4))]
            lines.append(_many(nm, a, now, pts) if rnd.chance(0.5) else "upd %s %d %d %016x %d" % (nm, a, pts[0][0], pts[0][1], now))
            lines.append("fetch %s %d %d %d %d" % (nm, a, now - R, now, now))
        lines += ["sync f", "sync g", "open f", "open g"]
        for nm in ('f', 'g'):
            for a_ in range(0, a + 1):
                lines.append("fetch %s %d %d %d %d" % (nm, a_, now - layout[a_][0] * layout[a_][1], now, now))
            _observe(rnd, lines, layout, [a], now, nwin=1, name=nm)
        cases.append({'id': 'c01-shared-%d' % j, 'lines': lines, 'tags': {'layout': lname, 'levels': k, 'target': a, 'ops': {'shared_list': 1}}})
    # a window of more than a megabyte of slots over a written archive: every written interval shows
    # its value wherever it lies in the window (also after the ring has wrapped)
    N = 100000 if not thorough else 150000
    nw = 1700000000 + rnd.randint(0, 10 ** 6)
    offs = sorted(set([0, 1, 87380, 87381, 87382, 87383, N - 1, N - 2, N // 2] + [rnd.randrange(N) for _ in range(40)]))
    pts = [(nw - o, small_value(rnd)) for o in offs]
    lines = ["create f 1 1 %d m 2 x 3f000000" % N, _many('f', 0, nw, pts), "fetch f 0 %d %d %d" % (nw - N, nw, nw)]
    nw2 = nw + 10000
    pts2 = [(nw2 - o, small_value(rnd)) for o in range(0, 10000, 997)]
    lines += [_many('f', 0, nw2, pts2), "fetch f 0 %d %d %d" % (nw2 - N, nw2, nw2), "fetch f 0 %d %d %d" % (nw2 - 87382, nw2, nw2)]
    cases.append({'id': 'c01-big', 'lines': lines, 'tags': {'layout': 'big%d' % N, 'levels': 1, 'target': 0, 'ops': {'many': 2}}})
    return cases


def gen_c02(rnd, n, thorough=False):
    """Downsampling: fresh points written to the finest archive (routing trivial); observed are
    all archives after each write.  NaN-valued writes are kept away from max/min (scan order
    with a NaN among the known values is not determined by the property)."""
    cases = []
    names = ['ring2', 'ring2c', 'ratioN', 'barely', 'barely3', 'three', 'four', 'tens', 'multipage', 'ring1b', 'short2', 'short3', 'short3', 'short3b', 'ratio512', 'ratio600']
    for c in range(n):
        lname, layout = pick_layout(rnd, names, random_share=0.35, levels=rnd.pick([2, 3, 4]))
        if len(layout) < 2:
            lname, layout = 'three', list(FIXED_LAYOUTS['three'])
        k = len(layout)
        m, xff = rnd.pick(METHODS), rnd.pick(XFF_VALID)
        ratio = layout[1][0] // layout[0][0]
        if rnd.chance(0.4):
            # a threshold that is exactly reachable: float32(j/ratio), its neighbours, decimal fractions
            j = rnd.randint(1, ratio)
            xff = rnd.pick([f32bits(j / ratio), f32bits(j / ratio) + rnd.pick([-1, 1]) if j < ratio else f32bits(1.0),
                            f32bits(rnd.pick([0.1, 0.2, 0.3, 0.4, 0.6, 0.7, 0.8, 0.9]))])
        nan_ok = m not in (4, 5)
        now = clock_in_domain(rnd, layout)
        S0, N0 = layout[0]
        R0 = S0 * N0
        lines = [_create('f', layout, m, xff)]
        tags = {'layout': lname, 'levels': k, 'method': m, 'xff': '%08x' % xff, 'ops': {}}
        sent = []
        for _ in range(rnd.randint(1, 24 if thorough else 10)):
            now = advance(rnd, now, layout)
            r = rnd.random()
            if r < 0.3:
                age = min(rnd.pick([0, 1, S0, rnd.randint(0, R0 - 1)]), R0 - 1)
                v = value(rnd, nan_ok)
                lines.append("upd f %d %d %016x %d" % (rnd.pick([-1, 0]), now - age, v, now))
                sent.append((now - age, v))
                tags['ops']['upd'] = tags['ops'].get('upd', 0) + 1
            elif r < 0.42 and sent:
                # the same point sent again (same time, same bits) after the coarser slots it feeds were
                # written directly, or after neighbours of its interval changed: the write recomputes them
                t, v = rnd.pick(sent[-6:])
                if now - R0 < t <= now:
                    if rnd.chance(0.6):
                        a = rnd.randrange(1, k)
                        lines.append("upd f %d %d %016x %d" % (a, t - t % layout[a][0], value(rnd, nan_ok), now))
                    lines.append("upd f %d %d %016x %d" % (rnd.pick([-1, 0]), t, v, now))
                    tags['ops']['resend'] = tags['ops'].get('resend', 0) + 1
            else:
                shape = rnd.pick(['dense', 'sparse', 'dups', 'lap', 'exact_k', 'exact_k'] + (['straddle3', 'straddle3'] if k >= 3 else []))
                pts = []
                if shape == 'straddle3':
                    # one best-archive batch with points on both sides of the finest archive's retention edge that
                    # lie under the same slot of the archive two levels up: that slot is recomputed from what the
                    # middle archive holds after BOTH were written
                    lv = rnd.randrange(k - 2)
                    Ra, Rb, Sc = layout[lv][0] * layout[lv][1], layout[lv + 1][0] * layout[lv + 1][1], layout[lv + 2][0]
                    Rprev = layout[lv - 1][0] * layout[lv - 1][1] if lv > 0 else 0
                    edge = now - Ra
                    x = edge % Sc
                    dmax, emax = min(x, Rb - Ra - 1), min(Sc - x - 2, Ra - Rprev - 1)
                    if dmax >= 0 and emax >= 0:
                        for _j in range(rnd.randint(1, 3)):
                            pts.append((edge - rnd.randint(0, dmax), value(rnd, nan_ok)))          # too old for archive lv
                        for _j in range(rnd.randint(1, 3)):
                            pts.append((edge + 1 + rnd.randint(0, emax), value(rnd, nan_ok)))      # still inside archive lv
                    else:
                        shape = 'sparse'
                if shape == 'straddle3':
                    pass
                elif shape == 'dense':
                    span = rnd.randint(1, N0)
                    pts = [(now - j * S0, value(rnd, nan_ok)) for j in range(span)]
                elif shape == 'sparse':
                    pts = [(now - rnd.randint(0, R0 - 1), value(rnd, nan_ok)) for _j in range(rnd.randint(1, 6))]
                elif shape == 'dups':
                    t = now - rnd.randint(0, R0 - 1)
                    pts = [(t, value(rnd, nan_ok)) for _j in range(rnd.randint(2, 4))]
                    pts += [(now - rnd.randint(0, R0 - 1), value(rnd, nan_ok))]
                elif shape == 'exact_k':   # exactly j known finer slots inside one coarser interval
                    S1 = layout[1][0]
                    base = (now // S1) * S1 - S1 * rnd.randint(0, max(R0 // S1 - 1, 0))
                    slots = [base + i * S0 for i in range(ratio) if now - R0 < base + i * S0 <= now]
                    if slots:
                        pts = [(t, value(rnd, nan_ok)) for t in rnd.sample(slots, rnd.randint(1, len(slots)))]
                    else:
                        pts = [(now, value(rnd, nan_ok))]
                else:   # two points one lap apart: the later one empties the slot of the earlier
                    t = now - rnd.randint(0, R0 - 1)
                    pts = [(t, value(rnd, nan_ok)), (t + R0, value(rnd, nan_ok))]
                    if rnd.chance(0.5):
                        pts.append((now - rnd.randint(0, R0 - 1), value(rnd, nan_ok)))
                rnd.shuffle(pts)
                lines.append(_many('f', -1 if shape == 'straddle3' else rnd.pick([-1, 0]), now, pts))
                sent += pts[-2:]
                tags['ops'][shape] = tags['ops'].get(shape, 0) + 1
            _observe(rnd, lines, layout, list(range(k)), now, nwin=2)
        cases.append({'id': 'c02-%d' % c, 'lines': lines, 'tags': tags})
    # small-scope exhaustive sweep: EVERY subset of the finer slots of one coarser interval known,
    # for every method and every threshold j/ratio and its float32 neighbours (and 0, 1)
    for ratio in ([4] if not thorough else [2, 3, 4, 5, 6]):
        layout = [(1, 2 * ratio), (ratio, 4)]
        now = 1700000000 - 1700000000 % ratio + ratio - 1          # the last finer slot of a coarser interval
        base = now - ratio + 1
        xffs = sorted(set([0, 0x3f800000] + [f32bits(j / ratio) + d for j in range(1, ratio) for d in (-1, 0, 1)]))
        for m in METHODS:
            lines, nfile = [], 0
            for xff in xffs:
                for mask in range(1, 2 ** ratio):
                    name = 'f%d' % nfile; nfile += 1
                    pts = [(base + i, fbits(float(1 + i * 3 + (7 if i == 1 else 0)))) for i in range(ratio) if mask >> i & 1]
                    lines.append(_create(name, layout, m, xff))
                    lines.append(_many(name, 0, now, pts))
                    lines.append("fetch %s 1 %d %d %d" % (name, base - 1, now, now))
                    lines.append("drop %s" % name)
            cases.append({'id': 'c02-sweep%d-m%d' % (ratio, m), 'lines': lines,
                          'tags': {'layout': 'sweep%d' % ratio, 'levels': 2, 'method': m, 'xff': 'all', 'ops': {'exhaustive_subsets': nfile}}})
    # a sparse batch that skips a whole coarser interval whose slot holds something else than the aggregate of its
    # finer slots (it was written directly): only the coarser slots covering written points are recomputed
    for j in range(3):
        ratio = rnd.pick([2, 5, 6])
        layout = [(1, 8 * ratio), (ratio, 12)] + ([(ratio * 4, 6)] if rnd.chance(0.5) else [])
        m = rnd.pick(METHODS)
        now = clock_in_domain(rnd, layout)
        now = now - now % ratio + ratio - 1
        base = now - now % ratio - 3 * ratio                      # four coarser intervals: base, base+ratio, ... up to the current one
        dense = [(base + i, fbits(float(1 + i))) for i in range(4 * ratio)]
        lines = [_create('f', layout, m, rnd.pick([0, 0x3e800000])), _many('f', 0, now, dense),
                 _many('f', 1, now, [(base + ratio, fbits(999.0)), (base + 2 * ratio, fbits(888.0))]),
                 _many('f', 0, now, [(base + rnd.randrange(ratio), fbits(50.0)), (base + 3 * ratio + rnd.randrange(ratio), fbits(60.0))])]
        for a_ in range(len(layout)):
            lines.append("fetch f %d %d %d %d" % (a_, now - layout[a_][0] * layout[a_][1], now, now))
        cases.append({'id': 'c02-skip-%d' % j, 'lines': lines, 'tags': {'layout': 'skip%d' % ratio, 'levels': len(layout), 'method': m, 'xff': 'low', 'ops': {'sparse_batch_skipping_interval': 1}}})
    cases += _shared_cases(rnd, 'c02', False)
    return cases


def gen_c03(rnd, n, thorough=False):
    """Acceptance and routing: single updates at every boundary age +-1, batches mixing fresh,
    stale and boundary ages in any order, named archives.  Most cases use xFilesFactor 1 and
    sparse writes so that what the coarser archives hold is decided by routing alone."""
    cases = []
    for c in range(n):
        lname, layout = pick_layout(rnd, random_share=0.4)
        k = len(layout)
        m = rnd.pick(METHODS)
        xff = 0x3f800000 if rnd.chance(0.7) else rnd.pick(XFF_VALID)
        nan_ok = m not in (4, 5)
        now = clock_in_domain(rnd, layout)
        rets = retentions(layout)
        lines = [_create('f', layout, m, xff)]
        tags = {'layout': lname, 'levels': k, 'ops': {}, 'boundary_ages': 0, 'stale_points': 0}
        for _ in range(rnd.randint(1, 20 if thorough else 9)):
            now = advance(rnd, now, layout)
            r = rnd.random()
            if r < 0.45:
                ident = rnd.pick([-1, -1, -1] + list(range(k)))
                age = boundary_age(rnd, layout)
                if rnd.chance(0.1):
                    age = -rnd.randint(1, 3)
                if rnd.chance(0.08):
                    # ancient timestamps: the age as a signed 32-bit difference is negative or wraps
                    age = rnd.pick([now - 1, now - rnd.randint(1, 10 ** 6), 2 ** 31 - 1, 2 ** 31, 2 ** 31 + rnd.randint(0, 100), now // 2])
                    age = min(age, now - 1)
                if any(abs(age - R) <= 1 for R in rets):
                    tags['boundary_ages'] += 1
                lines.append("upd f %d %d %016x %d" % (ident, max(now - age, 1), value(rnd, nan_ok), now))
                tags['ops']['upd'] = tags['ops'].get('upd', 0) + 1
                if ident >= 0 and rnd.chance(0.4):
                    # the same timestamp once more through the same handle, this time routed by its age (every
                    # call is routed on its own, whatever the call before it named)
                    t_same = max(now - age, 1)
                    now = now + rnd.pick([0, 0, 1, layout[0][0]])
                    lines.append("upd f -1 %d %016x %d" % (t_same, value(rnd, nan_ok), now))
                    tags['ops']['named_then_best'] = tags['ops'].get('named_then_best', 0) + 1
            else:
                ident = rnd.pick([-1, -1] + list(range(k)))
                cnt = rnd.pick([0, 1, 2, 3, 5, 8, 20 if thorough else 8])
                kind = rnd.pick(['mixed', 'mixed', 'onestale', 'allstale', 'fresh', 'sameslot', 'monotone_dups'])
                pts = []
                for _j in range(cnt):
                    if kind == 'fresh':
                        age = rnd.randint(0, rets[0] - 1)
                    elif kind == 'allstale':
                        age = rets[-1] + rnd.randint(0, 5)
                    else:
                        age = boundary_age(rnd, layout)
                    if rnd.chance(0.06):
                        age = -rnd.randint(1, 2 * layout[0][0])
                    pts.append((max(now - age, 1), value(rnd, nan_ok)))
                if kind == 'onestale' and pts:
                    R = rets[-1] if ident == -1 else rets[ident]
                    pts = [(max(now - rnd.randint(0, rets[0] - 1), 1), v) for _t, v in pts]
                    pts.insert(rnd.randrange(len(pts) + 1), (max(now - R - rnd.randint(0, 3), 1), value(rnd, nan_ok)))
                if kind == 'sameslot' and pts:
                    t0 = pts[0][0]
                    S = layout[0][0]
                    pts += [(t0 - t0 % S + rnd.randint(0, S - 1), value(rnd, nan_ok)) for _j in range(rnd.randint(1, 3))]
                    pts += [(t0, value(rnd, nan_ok))]
                if pts and rnd.chance(0.12):
                    # an unfilled entry (timestamp 0, the zero value of a point) anywhere in the batch: it is
                    # just a very old point
                    pts.insert(rnd.randrange(len(pts) + 1), (0, rnd.pick([0, value(rnd, nan_ok)])))
                    tags['ops']['zero_time'] = tags['ops'].get('zero_time', 0) + 1
                if rnd.chance(0.7):
                    rnd.shuffle(pts)
                if kind == 'monotone_dups' and pts:
                    # equal timestamps with different values inside a monotone (ascending or
                    # descending) batch: an order-dependent sort shortcut shows here
                    pts += [(rnd.pick(pts)[0], value(rnd, nan_ok)) for _j in range(rnd.randint(1, 3))]
                    pts.sort(key=lambda tv: tv[0], reverse=rnd.chance(0.6))
                Rlim = rets[-1] if ident == -1 else rets[ident]
                tags['stale_points'] += sum(1 for t, _ in pts if now - t >= Rlim)
                tags['boundary_ages'] += sum(1 for t, _ in pts if any(abs(now - t - R) <= 1 for R in rets))
                lines.append(_many('f', ident, now, pts))
                tags['ops'][kind] = tags['ops'].get(kind, 0) + 1
                if rnd.chance(0.2):
                    # the next call carries an EARLIER clock (each call is judged by its own clock): a batch, possibly
                    # empty, at a later instant first, then the same kind of batch at the earlier one
                    later = now + rnd.pick([1, rets[0] // 2 + 1, rets[0], rets[-1], 2 * rets[-1]])
                    if later < TMAX - 2 * rets[-1]:
                        lines.append(_many('f', rnd.pick([-1, ident]), later, [] if rnd.chance(0.5) else [(later - rnd.randint(0, rets[0] - 1), value(rnd, nan_ok))]))
                        back = [(max(now - boundary_age(rnd, layout), 1), value(rnd, nan_ok)) for _j in range(rnd.randint(1, 4))]
                        lines.append(_many('f', ident, now, back))
                        tags['ops']['clock_back'] = tags['ops'].get('clock_back', 0) + 1
            _observe(rnd, lines, layout, list(range(k)), now, nwin=2)
        cases.append({'id': 'c03-%d' % c, 'lines': lines, 'tags': tags})
    # seed-independent: a single update that names a coarser archive, then the same timestamp routed by age,
    # through one handle (and once more after other calls in between that are not single updates)
    for j, layout in enumerate([[(1, 60), (10, 60), (60, 60)], [(2, 5), (10, 6)]]):
        now = 1700000000 + 60 * rnd.randint(0, 10 ** 4)
        t = now - rnd.randint(1, layout[0][0] * layout[0][1] - 1)
        lines = [_create('f', layout, 2, 0)]
        lines.append("upd f %d %d %016x %d" % (len(layout) - 1, t, fbits(5.0), now))
        lines.append("upd f -1 %d %016x %d" % (t, fbits(7.0), now))
        for a in range(len(layout)):
            lines.append("raw f %d" % a)
        lines.append(_many('f', -1, now + 1, [(now, fbits(2.0))]))
        lines.append("fetch f 0 %d %d %d" % (now - 10, now + 1, now + 1))
        lines.append("upd f -1 %d %016x %d" % (t, fbits(9.0), now + 1))
        for a in range(len(layout)):
            lines += ["fetch f %d %d %d %d" % (a, now + 1 - layout[a][0] * layout[a][1], now + 1, now + 1), "raw f %d" % a]
        cases.append({'id': 'c03-named-then-best-%d' % j, 'lines': lines, 'tags': {'layout': 'fixed', 'levels': len(layout), 'ops': {'named_then_best': 2}, 'boundary_ages': 0, 'stale_points': 0}})
    # one batch of more than 2^16 points (most of them too old): the result is that of the whole batch
    # sorted by time -- a point routed to the coarser archive and a finer point of the same coarse slot,
    # two points of one slot -- whatever lies between them in the caller's order
    # (the filler is in descending time order: the model's stable insertion sort is linear on it)
    for j in range(2):
        layout = [(1, 10), (5, 12)]
        now = 1700000000 + 5 * rnd.randint(0, 10 ** 5)           # a multiple of the coarser step
        B = (now - 10, fbits(7.0))                               # exactly as old as the finest retention: archive 1, slot now-10
        A = (now - 10 + rnd.randint(1, 4), fbits(1.0))           # archive 0, and by propagation the same slot of archive 1
        C1 = (now - 20 + 1, fbits(3.0))                          # two points of one slot of archive 1 (slot now-20) ...
        C2 = (now - 20 + 3, fbits(4.0))                          # ... the later timestamp wins
        filler = [(now - 10 ** 6 - i, fbits(float(i % 7))) for i in range(65536 + rnd.randint(1, 50))]
        order = [[B, C2] + filler + [A, C1], [A, C1] + filler + [B, C2]][j]
        lines = [_create('f', layout, 2, 0), _many('f', -1, now, order)]
        for a in range(2):
            lines += ["fetch f %d %d %d %d" % (a, now - layout[a][0] * layout[a][1], now, now), "raw f %d" % a]
        cases.append({'id': 'c03-bigbatch-%d' % j, 'lines': lines, 'tags': {'layout': 'two', 'levels': 2, 'ops': {'big_batch': 1}}})
    # small-scope exhaustive sweeps: a single update at EVERY age from 3 s in the future to 3 s
    # beyond the maximum retention (best archive and every named one), each on a fresh file so that
    # the raw dump shows exactly where it went; and every 2-point batch over the same ages
    small = [[(1, 3), (3, 2)]] if not thorough else [[(1, 3), (3, 2)], [(1, 4), (2, 4)], [(2, 3), (6, 2)], [(1, 2), (2, 2), (4, 3)]]
    for si, layout in enumerate(small):
        k = len(layout)
        Rmax = max(S * N for S, N in layout)
        top = layout[-1][0]
        base = 1700000000 - 1700000000 % top
        for now in ([base + top - 1] if not thorough else [base, base + top - 1]):
            lines = []
            nfile = 0
            for ident in [-1] + list(range(k)):
                for age in range(-3, Rmax + 4):
                    name = 'f%d' % nfile; nfile += 1
                    lines.append(_create(name, layout, 2, 0x3f800000))
                    lines.append("upd %s %d %d %016x %d" % (name, ident, now - age, fbits(float(age + 100)), now))
                    for a in range(k):
                        lines.append("raw %s %d" % (name, a))
                    lines.append("drop %s" % name)
            cases.append({'id': 'c03-sweep%d-%d' % (si, now % top), 'lines': lines,
                          'tags': {'layout': 'sweep%d' % si, 'levels': k, 'ops': {'exhaustive_single': nfile}, 'boundary_ages': 3 * k, 'stale_points': 0}})
            lines = []
            nfile = 0
            for ident in [-1] + list(range(k)):
                for age1 in range(-1, Rmax + 2):
                    for age2 in range(-1, Rmax + 2):
                        name = 'g%d' % nfile; nfile += 1
                        lines.append(_create(name, layout, 2, 0x3f800000))
                        lines.append(_many(name, ident, now, [(now - age1, fbits(1.0)), (now - age2, fbits(2.0))]))
                        for a in range(k):
                            lines.append("raw %s %d" % (name, a))
                        lines.append("drop %s" % name)
            cases.append({'id': 'c03-sweepb%d-%d' % (si, now % top), 'lines': lines,
                          'tags': {'layout': 'sweep%d' % si, 'levels': k, 'ops': {'exhaustive_pair': nfile}, 'boundary_ages': 0, 'stale_points': 0}})
    cases += _shared_cases(rnd, 'c03', True)
    return cases


def gen_c04(rnd, n, thorough=False):
    """Fetch window contract: (layout, clock, from, until, id) tuples around every edge on
    never-written, partly written and fully written archives; ids -2..count+1."""
    cases = []
    for c in range(n):
        lname, layout = pick_layout(rnd, random_share=0.5)
        k = len(layout)
        m, xff = rnd.pick(METHODS), rnd.pick(XFF_VALID)
        now = clock_in_domain(rnd, layout)
        rets = retentions(layout)
        lines = [_create('f', layout, m, xff)]
        fill = rnd.pick(['empty', 'empty', 'partial', 'full'])
        tags = {'layout': lname, 'levels': k, 'fill': fill, 'ops': {}}
        if fill != 'empty':
            for a in range(k):
                if fill == 'partial' and rnd.chance(0.5):
                    continue
                S, N = layout[a]
                cnt = N if fill == 'full' else rnd.randint(1, N)
                pts = [(now - j * S, small_value(rnd)) for j in range(cnt)]
                lines.append(_many('f', a, now, pts))
        if rnd.chance(0.25):
            # a stale max-retention word in the header (it is not part of the layout): the shape of a fetch
            # is decided by the archive list alone
            lines += ["sync f", "setmaxret f %d" % rnd.pick([1, 0, rets[0] - 1, rets[0], rets[0] + 1, rnd.randint(1, rets[-1]), rets[-1] * 2, 2 ** 31 - 1, 2 ** 32 - 1]), "open f"]
            tags['stale_maxret'] = 1
        for _ in range(rnd.randint(3, 10)):
            if rnd.chance(0.3):
                now = advance(rnd, now, layout)
            a = rnd.pick([-1, -1] + list(range(k)) + [-2, k, k + 1] + [rnd.pick([2 ** 32, 2 ** 32 + rnd.randrange(k), -2 ** 32, 2 ** 32 - 1, -2 ** 61, 2 ** 61 + 1, 2 ** 33 + 1, -2 ** 32 - 1])])      # ids whose low 32 bits name an archive are out of range all the same
            if 0 <= a < k:
                S, N = layout[a]
            else:
                S, N = layout[rnd.randrange(k)]
            R = S * N
            e = rnd.pick(['full', 'degenerate', 'substep', 'straddle_now', 'straddle_ret', 'future', 'past',
                          'from0', 'reversed', 'reversed_future', 'reversed_past', 'random', 'edge_now', 'edge_ret', 'best_bands'])
            if e == 'full':
                fr, un = now - R, now
            elif e == 'degenerate':
                fr = now - rnd.randint(0, R + 2); un = fr
            elif e == 'substep':
                fr = now - rnd.randint(0, R); un = fr + rnd.randint(0, max(S - 1, 0))
            elif e == 'straddle_now':
                fr = now - rnd.randint(0, 2 * S); un = now + rnd.randint(0, 2 * S)
            elif e == 'straddle_ret':
                fr = now - R - rnd.randint(0, 2 * S); un = now - R + rnd.randint(0, 2 * S)
            elif e == 'future':
                fr = now + rnd.randint(1, 3); un = fr + rnd.randint(0, 5)
            elif e == 'past':
                un = now - R - rnd.randint(1, 3); fr = un - rnd.randint(0, 5)
            elif e == 'from0':
                fr, un = 0, rnd.pick([0, now, now - R, now - R - 1, 2 ** 32 - 1])
            elif e == 'reversed':
                un = now - rnd.randint(1, R); fr = un + rnd.randint(1, 3)
            elif e == 'reversed_future':      # inverted AND wholly in the future: still an error
                un = now + rnd.randint(1, 20); fr = un + rnd.randint(1, 10)
            elif e == 'reversed_past':        # inverted AND wholly before the retention: still an error
                fr = now - R - rnd.randint(1, 20); un = fr - rnd.randint(1, 30)
            elif e == 'edge_now':
                fr = now + rnd.randint(-1, 1); un = fr + rnd.randint(0, 2)
            elif e == 'edge_ret':
                un = now - R + rnd.randint(-1, 1); fr = un - rnd.randint(0, 2)
            elif e == 'best_bands':
                a = -1
                Rb = rnd.pick(rets)
                fr = now - Rb + rnd.randint(-1, 1); un = rnd.pick([now, fr, fr + 1])
            else:
                fr = now - rnd.randint(0, R + 5); un = fr + rnd.randint(0, R + 5)
            fr, un = min(max(fr, 0), 2 ** 32 - 1), min(max(un, 0), 2 ** 32 - 1)        # Timestamp is a uint32
            lines.append("fetch f %d %d %d %d" % (a, fr, un, now))
            if rnd.chance(0.25) and 0 < now < 2 ** 32 - 10 ** 6:
                # the same fetch without an explicit clock while the library's clock moves on with every reading
                lines.append("wfetchtick f %d %d %d %d %d" % (a, fr, un, now, rnd.pick([1, 1, S, R, 60])))
            tags['ops'][e] = tags['ops'].get(e, 0) + 1
        cases.append({'id': 'c04-%d' % c, 'lines': lines, 'tags': tags})
        if c == 3:
            # windows of more than a megabyte of slots (and the same on a never-written archive): the shape
            # is that of the bounds whatever the amount of data behind it
            N = rnd.pick([100000, 120000]) if not thorough else 180000
            nw = 1700000000 + rnd.randint(0, 10 ** 6)
            big = ["create w 1 1 %d m 2 x 3f000000" % N, "create e 1 1 %d m 2 x 3f000000" % N,
                   "many w 0 %d 3 %d %016x %d %016x %d %016x" % (nw, nw, fbits(1.0), nw - N + 1, fbits(2.0), nw - 50000, fbits(3.0))]
            for fr, un in ([(nw - N, nw), (nw - 87382, nw), (nw - 3600, nw)] if not thorough else [(nw - N, nw), (nw - 90000, nw), (nw - 87382, nw), (nw - 87381, nw - 1), (0, nw), (nw - 3600, nw)]):
                big.append("fetch w 0 %d %d %d" % (fr, un, nw))
            big.append("fetch e 0 %d %d %d" % (nw - N, nw, nw))
            cases.append({'id': 'c04-%d-big' % c, 'lines': big, 'tags': {'layout': 'big%d' % N, 'levels': 1, 'fill': 'partial', 'ops': {'fetch': 12}}})
    # clocks within one step of 2^32 (the aligned end of a window wraps around): the shape is the same function
    # of layout, window and clock on a never-written archive and on a written one
    for j in range(3):
        lname, layout = pick_layout(rnd, random_share=0.5)
        k = len(layout)
        S, N = layout[rnd.randrange(k)]
        now = 2 ** 32 - 1 - rnd.randint(0, max(S - 1, 0))
        lines = [_create('e', layout, 2, 0), _create('w', layout, 2, 0)]
        for a_ in range(k):
            Sa, Na = layout[a_]
            lines.append(_many('w', a_, now, [(now - q * Sa, small_value(rnd)) for q in range(min(Na, 5))]))
        for _q in range(6):
            a_ = rnd.pick([-1] + list(range(k)))
            Sa, Na = layout[a_ if a_ >= 0 else 0]
            fr = now - rnd.randint(1, Sa * Na)
            un = rnd.pick([now, now - rnd.randint(0, Sa), 2 ** 32 - 1])
            for nm in ('e', 'w'):
                lines.append("fetch %s %d %d %d %d" % (nm, a_, min(fr, un), un, now))
        cases.append({'id': 'c04-wrap-%d' % j, 'lines': lines, 'tags': {'layout': lname, 'levels': k, 'fill': 'both', 'ops': {'clock_near_2^32': 12}}})
    # small-scope exhaustive sweeps: EVERY (archive id, from, until) around a small layout, for an
    # aligned and an unaligned clock, on a never-written and on a fully written file
    small = [[(1, 3), (3, 2)]] if not thorough else [[(1, 3)], [(1, 3), (3, 2)], [(1, 4), (2, 4)], [(2, 3), (6, 2)], [(1, 2), (2, 2), (4, 3)]]
    for si, layout in enumerate(small):
        k = len(layout)
        Rmax = max(S * N for S, N in layout)
        top = layout[-1][0]
        base = 1700000000 - 1700000000 % top
        for now in ([base + top - 1] if not thorough else [base, base + 1, base + top - 1]):
            for fill in (['full'] if not thorough else ['empty', 'full']):
                lines = [_create('f', layout, 2, 0)]
                if fill == 'full':
                    for a, (S, N) in enumerate(layout):
                        lines.append(_many('f', a, now, [(now - j * S, fbits(float(10 * a + j))) for j in range(N)]))
                lo, hi = now - Rmax - 3, now + 3
                for a in range(-2, k + 1):
                    for fr in range(lo, hi + 1):
                        for un in range(lo, hi + 1):
                            lines.append("fetch f %d %d %d %d" % (a, fr, un, now))
                cases.append({'id': 'c04-sweep%d-%d-%s' % (si, now % top, fill), 'lines': lines,
                              'tags': {'layout': 'sweep%d' % si, 'levels': k, 'fill': fill, 'ops': {'exhaustive': len(lines)}}})
    # an archive first written more than 2^31 s before the fetch (the stored base slot time is that old): the
    # shape of the answer is decided by the window alone, also when the window contains base + 2^31
    for j in range(3):
        lname, layout = pick_layout(rnd, random_share=0.5, max_points=40)
        k = len(layout)
        a = rnd.randrange(k)
        S, N = layout[a]
        R = S * N
        t0 = 3 * 10 ** 8 + rnd.randint(0, 10 ** 8)
        lines = [_create('f', layout, 2, 0x3f000000), "upd f %d %d %016x %d" % (a, t0, fbits(7.0), t0)]
        base = t0 - t0 % S
        for d in [0, S, rnd.randint(1, max(R - 1, 1)), R - 1, R + rnd.randint(0, R)]:
            now = base + 2 ** 31 + d
            if now >= 2 ** 32:
                continue
            lines.append("fetch f %d %d %d %d" % (a, now - R, now, now))
            lines.append("fetch f %d %d %d %d" % (a, max(now - R, base + 2 ** 31 - S - 1), min(now, base + 2 ** 31 + S), now))
            fr = rnd.randint(now - R, now - 1)
            lines.append("fetch f %d %d %d %d" % (a, fr, rnd.randint(fr, now), now))
        lines += ["sync f", "open f", "fetch f %d %d %d %d" % (a, now - R, now, now)]
        cases.append({'id': 'c04-oldbase-%d' % j, 'lines': lines, 'tags': {'layout': lname, 'levels': k, 'fill': 'old', 'ops': {'base_2^31_old': len(lines)}}})
    # the same fetches through a server (every archive, windows older than the finest retention): the answer has the
    # shape of the local one
    lay = [(1, 20), (5, 12), (30, 10)]
    ll = ["create s/a.wsp %s m 2 x 3f000000" % fmt_layout(lay), "many s/a.wsp 0 @ 2 @ %016x @-3 %016x" % (fbits(1.0), fbits(2.0)), "sync s/a.wsp", "drop s/a.wsp"]
    for a_, frm, until in [(1, '0', '0'), (2, '0', '0'), (-1, '@-50', '@-30'), (-1, '@-200', '@-100'), (1, '@-40', '@-25'), (2, '@-200', '@-31'), (0, '0', '0')]:
        for rem in (1, 0):
            ll.append("cliview src=s:a.wsp from=%s until=%s archive=%d header=%d remote=%d" % (frm, until, a_, rnd.pick([0, 1]), rem))
    cases.append({'id': 'c04-remote', 'lines': ll, 'tags': {'layout': 'three_live', 'levels': 3, 'fill': 'partial', 'ops': {'remote_view': 14}}})
    return cases


def gen_c05(rnd, n, thorough=False):
    """Sync persistence: histories of writes interleaved with Sync / reopen / abandon on
    multi-page files.  After every operation the file on disk is compared with the snapshot
    taken at the last Sync, and a second handle opened on the path is fetched."""
    cases = []
    names = ['multipage', 'multipage3', 'three', 'tens', 'barely', 'ring2']
    for c in range(n):
        lname, layout = pick_layout(rnd, names, random_share=0.25, max_points=500 if thorough else 120)
        k = len(layout)
        m, xff = rnd.pick(METHODS), rnd.pick(XFF_VALID)
        nan_ok = m not in (4, 5)
        now = clock_in_domain(rnd, layout)
        rets = retentions(layout)
        lines = [_create('f', layout, m, xff), "disk f"]
        if rnd.chance(0.03):     # a created file that was never synced has no header on disk
            lines += ["dfetch f 0 0 %d %d" % (now, now), "drop f", "disk f", "open f"]
            cases.append({'id': 'c05-%d' % c, 'lines': lines, 'tags': {'layout': lname, 'levels': k, 'ops': {'neversynced': 1}}})
            continue
        if rnd.chance(0.2):
            # reads on the created handle before anything was synced (the header exists in memory only)
            lines += ["fetch f %d %d %d %d" % (rnd.randrange(k), now - 5, now, now), "raw f %d" % rnd.randrange(k)]
            if rnd.chance(0.5):
                lines.append("upd f -1 %d %016x %d" % (now - rnd.randint(0, rets[0] - 1), value(rnd, nan_ok), now))
        lines.append("sync f")
        tags = {'layout': lname, 'levels': k, 'ops': {}, 'bytes': 16 + 12 * k + 12 * sum(nn for _, nn in layout)}
        for _ in range(rnd.randint(2, 24 if thorough else 12)):
            now = advance(rnd, now, layout)
            r = rnd.random()
            if r < 0.3:
                ident = rnd.pick([-1, -1] + list(range(k)))
                R = rets[-1] if ident < 0 else rets[ident]
                lines.append("upd f %d %d %016x %d" % (ident, now - rnd.randint(0, R - 1), value(rnd, nan_ok), now))
                op = 'upd'
            elif r < 0.6:
                ident = rnd.pick([-1, -1] + list(range(k)))
                R = rets[-1] if ident < 0 else rets[ident]
                pts = [(now - rnd.randint(0, R - 1), value(rnd, nan_ok)) for _j in range(rnd.randint(1, 12))]
                lines.append(_many('f', ident, now, pts))
                op = 'many'
            elif r < 0.66 and k >= 2:
                # a batch spread over several archives, synced; then the same batch again with only a finest
                # point changed (the coarser points are byte-identical to what is stored), synced: what Sync
                # acknowledged is on disk
                pts = []
                for a_ in range(k):
                    lo = rets[a_ - 1] if a_ > 0 else 0
                    pts += [(now - rnd.randint(lo, rets[a_] - 1), value(rnd, nan_ok)) for _j in range(rnd.randint(1, 2))]
                lines += [_many('f', -1, now, pts), "sync f"]
                if rnd.chance(0.5):
                    lines.append("open f")
                pts2 = list(pts)
                pts2[0] = (pts2[0][0], fbits(float(rnd.randint(100, 200))))
                if rnd.chance(0.3):
                    pts2[1] = (pts2[1][0], fbits(float(rnd.randint(100, 200))))
                lines += [_many('f', -1, now, pts2), "sync f", "dfetch f 0 %d %d %d" % (now - rets[0], now, now)]
                op = 'partly_resent'
            elif r < 0.72:
                # a raw dump is a read: like every read it leaves the file's bytes alone
                lines.append("raw f %d" % rnd.randrange(k))
                op = 'rawdump'
            elif r < 0.8:
                lines.append("sync f")
                op = 'sync'
            elif r < 0.84:
                # Create again on the same path with the same header and an open flag without O_EXCL: it
                # keeps what was synced (the size does not change); abandoned before its Sync it changed nothing
                lines += ["sync f", _create('f', layout, m, xff).replace('create ', 'createover ', 1)]
                if rnd.chance(0.5):
                    lines += ["disk f", "drop f", "disk f", "open f"]
                op = 'createover'
            elif r < 0.87:
                # Sync on a handle that was closed (the deferred calls in the wrong order): it cannot have written
                # anything and must not say it did; the file is the last synced state
                lines += ["syncclosed f", "disk f", "open f"]
                op = 'sync_after_close'
            elif r < 0.9:
                # abandoned: closed without Sync, or forgotten altogether (the garbage collector runs)
                lines += [rnd.pick(["drop f", "abandon f"]), "disk f", "open f"]
                op = 'abandon'
            else:
                lines += ["sync f", "open f"]
                op = 'reopen'
            tags['ops'][op] = tags['ops'].get(op, 0) + 1
            lines.append("disk f")
            a = rnd.randrange(k)
            _observe(rnd, lines, layout, [a], now, nwin=1, raw=False, op='dfetch')
            _observe(rnd, lines, layout, [a], now, nwin=1, raw=False)
        lines += [rnd.pick(["drop f", "abandon f"]), "disk f", "open f"]
        _observe(rnd, lines, layout, list(range(k)), now, nwin=1)
        if rnd.chance(0.15):
            # the same file made unwritable for the process (mode 0444, effective uid dropped): what an
            # Open + update + Sync acknowledge must be what a later handle reads; refusing is fine
            how = rnd.pick(['unwritable', 'rosync', 'rosync nofollow', 'rosync cloexec', 'rosync sync'])
            lines += ["drop f", "%s f %d %016x %d%s" % (how.split()[0], now - rnd.randint(0, rets[0] - 1), value(rnd, False), now, ' ' + how.split()[1] if ' ' in how else ''), "disk f", "open f"]
            _observe(rnd, lines, layout, list(range(k)), now, nwin=1)
            tags['ops']['unwritable'] = 1
        cases.append({'id': 'c05-%d' % c, 'lines': lines, 'tags': tags})
    # slots that straddle a page boundary of the buffer (4096-byte pages, 12-byte slots behind a 28- or 40-byte
    # header): each is written ALONE between two Syncs (nothing else touches the page its tail lies on), with values
    # whose low mantissa bytes are not zero; after every Sync a fresh handle reads what the live handle reads
    for j in range(2):
        layout = [(1, 1100)] if j == 0 else [(1, 1400), (700, 4)]
        hdr = 16 + 12 * len(layout)
        straddlers = [q for q in range(layout[0][1]) if (hdr + 12 * q) // 4096 != (hdr + 12 * q + 11) // 4096]
        t0 = 1700000000 + rnd.randint(0, 10 ** 5)
        lines = [_create('f', layout, 2, 0x3f800000), "upd f 0 %d %016x %d" % (t0, fbits(1.0), t0), "sync f"]
        for q in straddlers:
            t = t0 + q
            lines += ["upd f 0 %d %016x %d" % (t, fbits(rnd.pick([0.1, 1.0 / 3, 42.5 + 1e-9])), t), "sync f", "disk f",
                      "dfetch f 0 %d %d %d" % (t - 5, t, t), "fetch f 0 %d %d %d" % (t - 5, t, t)]
        lines += ["drop f", "open f", "fetch f 0 %d %d %d" % (t - layout[0][1] + 1, t, t), "raw f 0"]
        cases.append({'id': 'c05-straddle-%d' % j, 'lines': lines, 'tags': {'layout': 'straddle', 'levels': len(layout), 'ops': {'page_straddling_slot': len(straddlers)}}})
    # one long-lived handle over a jump of the clock of more than 2^31 seconds (time differences no longer fit a
    # signed 32-bit duration), with writes that land on an archive's first slot again: after every Sync a fresh
    # handle reads what the live handle reads
    for j in range(2):
        layout = rnd.pick([[(10, 6)], [(10, 6), (60, 5)], [(7, 9)], [(1, 13), (13, 7)]])
        S0, N0 = layout[0]
        t0 = 1000 + rnd.randint(0, 500)
        lines = [_create('f', layout, 2, 0), "upd f 0 %d %016x %d" % (t0, fbits(1.0), t0), "sync f"]
        R0 = S0 * N0
        t1 = t0 + ((2 ** 31 - 1) // R0) * R0       # the last lap of the first slot less than 2^31 s after t0 ...
        steps = [t1] + [t1 + q * S0 for q in range(1, N0 + 2)] + [t1 + R0 + 3 * S0]      # ... then on past 2^31 s after t0
        if j == 1:
            steps = [t0 + 2 ** 31 + rnd.randint(0, 1000) * S0, t1 + 2 * R0, t1 + 2 * R0 + S0]
        for q, t in enumerate(steps):
            lines += ["upd f %d %d %016x %d" % (rnd.pick([0, -1]), t, fbits(float(q + 2)), t), "sync f",
                      "dfetch f 0 %d %d %d" % (t - S0 * N0, t, t), "fetch f 0 %d %d %d" % (t - S0 * N0, t, t)]
        lines += ["drop f", "open f", "fetch f 0 %d %d %d" % (t - S0 * N0, t, t)]
        cases.append({'id': 'c05-farjump-%d' % j, 'lines': lines, 'tags': {'layout': 'small', 'levels': len(layout), 'ops': {'far_jump': 1}}})
    # batches of hundreds of points to one archive (more than any internal chunk), on a file that was
    # never synced and on a synced one: nothing reaches the file before Sync
    for j, npts in enumerate([511, 512, 600, 1500] if thorough else [rnd.pick([512, 600]), 1500]):
        layout = [(1, 1600), (60, 400)]
        now = 1700000000 + rnd.randint(0, 10 ** 6)
        pts = [(now - i, small_value(rnd)) for i in range(npts)]
        lines = [_create('f', layout, 2, 0x3f000000), "disk f"]
        if j % 2 == 0:
            lines += ["sync f", "disk f"]
        lines += [_many('f', rnd.pick([-1, 0]), now, pts), "disk f", "dfetch f 0 %d %d %d" % (now - 20, now, now), "fetch f 1 %d %d %d" % (now - 3000, now, now),
                  "drop f", "disk f"]
        if j % 2 == 0:
            lines += ["open f", "fetch f 0 %d %d %d" % (now - 20, now, now)]
        cases.append({'id': 'c05-bigbatch-%d' % j, 'lines': lines, 'tags': {'layout': 'big_1600', 'levels': 2, 'ops': {'big_batch': 1}}})
    return cases


def clockify(lines, rnd=None):
    """The same history through the calls that read the clock: the library's clock (whispertool.Now) is
    set to each operation's instant; best-archive calls become Update / UpdateMany / Fetch, calls naming
    an archive get a now argument of 0."""
    out, cur = [], None
    step = 0
    for l in lines:
        tk = l.split()
        if tk[0] in ('upd', 'fetch') and len(tk) == 6:
            now = int(tk[5])
        elif tk[0] == 'many':
            now = int(tk[3])
        else:
            out.append(l)
            continue
        if not (0 < now < 2 ** 32) or not tk[1] == 'f':
            out.append(l)
            continue
        if now != cur:
            out.append(("setclock %d %d" % (now, step)) if step else ("setclock %d" % now))
            cur = now
        cur += step          # the call reads the clock once; the next reading shows step seconds more
        if tk[0] == 'upd':
            out.append("wupd f %s %s" % (tk[3], tk[4]) if tk[2] == '-1' else "upd f %s %s %s 0" % (tk[2], tk[3], tk[4]))
        elif tk[0] == 'fetch':
            out.append("wfetch f %s %s" % (tk[3], tk[4]) if tk[2] == '-1' else "fetch f %s %s %s 0" % (tk[2], tk[3], tk[4]))
        else:
            out.append("wmany f %s" % " ".join(tk[4:]) if tk[2] == '-1' else "many f %s 0 %s" % (tk[2], " ".join(tk[4:])))
    return out


def with_clock_variants(gen, share=0.25):
    def g(rnd, n, thorough=False):
        cases = gen(rnd, n, thorough)
        for cs in cases:
            if cs['lines'] and cs['lines'][0].startswith('create f ') and len(cs['lines']) < 400 and rnd.chance(share):
                cs['lines'] = clockify(cs['lines'], rnd)
                cs['tags']['clock'] = 'library_clock'
        return cases
    return g


GENS = {'C01': with_clock_variants(gen_c01), 'C02': with_clock_variants(gen_c02, 0.15), 'C03': with_clock_variants(gen_c03), 'C04': with_clock_variants(gen_c04),
        'C05': gen_c05}
