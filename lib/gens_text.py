"""Case generators for the text syntax (C19) and for layout validation (C07)."""
import datetime, itertools
from common import *
from gens_codec import be32, hx, enc_header_py

UNITS = {'s': 1, 'm': 60, 'h': 3600, 'd': 86400, 'w': 604800, 'y': 31536000}
MAXI32 = 2 ** 31 - 1


def S(s):
    """string argument, hex encoded"""
    b = s.encode('utf-8') if isinstance(s, str) else s
    return b.hex() if b else '-'


def dur_str(d):
    if d == 0:
        return '0s'
    for u in 'ywdhm':
        if d % UNITS[u] == 0:
            return '%d%s' % (d // UNITS[u], u)
    return '%ds' % d


def ts_str(t):
    return (datetime.datetime(1970, 1, 1) + datetime.timedelta(seconds=t)).strftime('%Y-%m-%dT%H:%M:%SZ')


def boundary_durations(rnd):
    out = [0, 1, 59, 60, 61, 3599, 3600, 3601, 86399, 86400, 604799, 604800, 31535999, 31536000, MAXI32, MAXI32 - 1]
    for u, m in UNITS.items():
        out += [(MAXI32 // m) * m, (MAXI32 // m - 1) * m, m * rnd.randint(1, max(MAXI32 // m, 1))]
    out += [rnd.randint(0, MAXI32) for _ in range(6)]
    return out


def duration_strings(rnd):
    out = []
    for u, m in UNITS.items():
        q = MAXI32 // m
        out += ['%d%s' % (x, u) for x in (0, 1, q - 1, q, q + 1, q * 10, 2147483647, 2147483648, 4294967296, 214748364, 214748365)]
    for big in (2 ** 63 - 1, 2 ** 63, 2 ** 64 - 1, 2 ** 64, 2 ** 64 + 1, 2 ** 64 + 60, 2 * 2 ** 64 + 5, 3 * 2 ** 64 + rnd.randint(1, 2 ** 31 - 1),
                4 * 2 ** 64 + 7, 2 ** 32 + 1, 2 ** 32, 10 ** 19, 10 ** 20 + 1, 2 ** 96 + 1, 2 ** 128 + 3):
        out.append('%d%s' % (big, rnd.pick('smhdwy')))
    out += ['', 's', '1', '1ss', '1sm', '01s', '00s', '0s', '-1s', '+1s', '1 s', ' 1s', '1S', '1x', '1.5s', '1e3s', '99999999999s',
            '1s ', '१s', '1µ', 'y1', '1y1', '1d2h', '007d', '0y', '0w']
    return out


def timestamp_strings(rnd):
    out = []
    for t in (0, 1, 59, 3599, 86399, 86400, 951782400, 951868799, 2 ** 31 - 1, 2 ** 31, 2 ** 32 - 1, rnd.getrandbits(32), rnd.getrandbits(32)):
        s = ts_str(t)
        out += [s, s[:11] + s[11:].lstrip('0') if s[11] == '0' else s, s[:-1] + '.0Z', s[:-1] + '.5Z', s[:-1] + ',000Z',
                s[:-1] + '.0000000001Z', s[:-1] + '.000000001Z', s[:-1] + '.Z', s[:-1], s + 'Z', s.lower(), ' ' + s, s + ' ',
                s.replace('T', ' '), s.replace('-', '/'), s[:-1] + '+00:00']
    out += ['1969-12-31T23:59:59Z', '1970-01-01T00:00:00Z', '2106-02-07T06:28:15Z', '2106-02-07T06:28:16Z', '2107-01-01T00:00:00Z',
            '9999-12-31T23:59:59Z', '0000-01-01T00:00:00Z', '0001-01-01T00:00:00Z', '2021-02-29T00:00:00Z', '2020-02-29T00:00:00Z',
            '2100-02-29T00:00:00Z', '2000-02-29T12:00:00Z', '2021-04-31T00:00:00Z', '2021-13-01T00:00:00Z', '2021-00-10T00:00:00Z',
            '2021-01-00T00:00:00Z', '2021-01-32T00:00:00Z', '2021-01-01T24:00:00Z', '2021-01-01T23:60:00Z', '2021-01-01T23:59:60Z',
            '2021-01-01T5:04:05Z', '2021-01-01T5:4:05Z', '2021-1-01T05:04:05Z', '2021-01-1T05:04:05Z', '21-01-01T05:04:05Z',
            '2021-01-01T05:04:5Z', '2021-01-01T005:04:05Z', '2021-01-01T05:04:05', '', 'Z', '2021-01-01', '+2021-01-01T05:04:05Z',
            '2021-01-01T-5:04:05Z', '2021-01-01T05:04:05.123456789Z', '2021-01-01T05:04:05.000000000Z', '2021-01-01T05:04:05,0Z',
            '2021-01-01T05:04:05.0000000009Z', '2021-01-01T05:04:05.00000000000000000000Z', '2021-01-01T05:04:05.1x', '2021-01-01T9:04:05.0Z']
    return out


def list_strings(rnd):
    out = ['', ',', '1s:1s', '1s:', ':1s', '1s', '1s:1s,', ',1s:1s', '1s:2s,2s:4s', '1s:2s,,2s:4s', '1s:4s,2s:4s', '1s:4s,2s:8s',
           '1s:4s,3s:12s', '2s:4s,1s:8s', '1s:4s,1s:8s', '1s:1s,4s:8s', '7s:10s', '10s:7s', '0s:10s', '10s:0s', '1s:70y', '1s:68y,1m:69y',
           '1s:20y,60s:40y', '1m:1h,1h:1d,1d:1y', '60s:1d,5m:1w,1h:2y', '1s:2147483647s', '1s:2147483648s', '1s:4s:8s', '1s;4s',
           '1s:4s, 2s:8s', '1S:4S', '1s:1m,1m:1m', '1s:59s,1m:1h', '1s:60s,1m:1h', '1s:61s,1m:1h', '2s:60s,1m:2m', '2s:118s,1m:2m',
           # lists that are valid only in another order (the parser takes the list as written)
           '1h:2d,1m:2h', '1m:2h,1d:32d,1h:2d', '1m:1h,1s:1m', '1d:1y,1s:1d,1m:30d', '60s:1h,1s:1m,3600s:30d']
    lay = random_layout(rnd, levels=rnd.pick([2, 3, 4]))
    if len(lay) >= 2:
        sh = list(lay)
        rnd.shuffle(sh)
        out.append(retention_string(sh))
        out.append(retention_string(list(reversed(lay))))
    for _ in range(4):
        out.append(retention_string(random_layout(rnd)))
    out += ['18446744073709551617s:1m', '1s:18446744073709551676s', '18446744073709551617s:18446744073709551676s,1m:1h', '4294967297s:4294967356s']
    return out


def boundary_infos(rnd):
    """one-archive strings whose retention is the largest multiple of the step that a signed 32-bit
    duration holds (and its neighbours one step below and above), steps from every unit"""
    out = []
    for u, m in UNITS.items():
        for step in (m, m * rnd.randint(2, 12), m * rnd.randint(2, 10 ** 4), rnd.randint(2, MAXI32)):
            if step > MAXI32:
                continue
            top = (MAXI32 // step) * step
            for ret in (top, top - step, top + step):
                if ret > 0:
                    out.append('%s:%s' % (dur_str(step), dur_str(ret) if rnd.chance(0.5) else '%ds' % ret))
    out += ['2147483647s:2147483647s', '2s:2147483646s', '3s:2147483646s', '60s:2147483640s', '1073741824s:1073741824s', '1073741823s:2147483646s']
    return out


def gen_c19(rnd, n, thorough=False):
    cases = []
    alphabet = '0129smhdwy-x:,'
    ex = []
    if thorough:
        for L in range(0, 4):
            ex += [''.join(p) for p in itertools.product(alphabet, repeat=L)]
    per = max(1, len(ex) // max(n, 1) + 1)
    for c in range(n):
        lines = []
        tags = {'ops': {}}
        def add(op, line):
            lines.append(line); tags['ops'][op] = tags['ops'].get(op, 0) + 1
        for d in rnd.sample(boundary_durations(rnd), 6):
            add('sdur', 'sdur %d' % d)
            add('pdur', 'pdur %s' % S(dur_str(d)))
        for d in (-1, -60, -2 ** 31, rnd.randint(-2 ** 31, -1)):
            if rnd.chance(0.3):
                add('sdur', 'sdur %d' % d)
        for s in rnd.sample(duration_strings(rnd), 12):
            add('pdur', 'pdur %s' % S(s))
        for s in ex[c * per:(c + 1) * per]:
            add('pdur', 'pdur %s' % S(s))
            if ':' in s or ',' in s:
                add('plist', 'plist %s' % S(s))
        for _ in range(4):
            L = rnd.randint(0, 4)
            add('pdur', 'pdur %s' % S(''.join(rnd.pick(alphabet) for _ in range(L))))
        year = rnd.randint(1970, 2106)
        dayb = int((datetime.datetime(year, 1, 1) - datetime.datetime(1970, 1, 1)).total_seconds())
        for t in [dayb - 1, dayb, dayb + 86400 * rnd.randint(0, 365) - 1, rnd.getrandbits(32), rnd.pick([0, 2 ** 32 - 1, 2 ** 31 - 1, 2 ** 31])]:
            if 0 <= t < 2 ** 32:
                add('sts', 'sts %d' % t)
                add('pts', 'pts %s' % S(ts_str(t)))
                add('flagts', 'flagts %s' % S(ts_str(t)))
        for s in rnd.sample(timestamp_strings(rnd), 10):
            add('pts', 'pts %s' % S(s))
            if rnd.chance(0.3):
                add('flagts', 'flagts %s' % S(s))
        for s in rnd.sample(list_strings(rnd), 6):
            add('plist', 'plist %s' % S(s))
            if rnd.chance(0.3):
                add('flaglist', 'flaglist %s' % S(s))
            if ',' not in s:
                add('pinfo', 'pinfo %s' % S(s))
        for s in rnd.sample(boundary_infos(rnd), 5):
            add('pinfo', 'pinfo %s' % S(s))
            add('plist', 'plist %s' % S(rnd.pick(['', '1s:1m,']) + s))
            if rnd.chance(0.3):
                add('flaglist', 'flaglist %s' % S(s))
        lname, layout = pick_layout(rnd)
        add('slist', 'slist %s' % fmt_layout(layout))
        add('plist', 'plist %s' % S(retention_string(layout)))
        add('plist', 'plist %s' % S(','.join('%s:%s' % (dur_str(s), dur_str(s * nn)) for s, nn in layout)))
        for m in rnd.sample(range(-1, 11), 4):
            add('smeth', 'smeth %d' % m)
        for s in rnd.sample(['average', 'sum', 'last', 'max', 'min', 'first', 'mix', 'percentile', '', 'avg', 'Sum', 'SUM', 'sum ', 'averagesum', 'AggregationMethod(1)', '1'], 5):
            add('pmeth', 'pmeth %s' % S(s))
            add('flagmeth', 'flagmeth %s' % S(s))
        cases.append({'id': 'c19-%d' % c, 'lines': lines, 'tags': tags})
    # timestamps as the server reads them from a query (from / until / now of /view): an accepted string means its
    # instant, a malformed one is refused -- every time it is sent, whatever was sent before
    lines = ["create s/i1/a.wsp 2 1 60 5 24 m 2 x 3f000000", "many s/i1/a.wsp 0 @ 3 @ 3ff0000000000000 @-7 4000000000000000 @-20 4008000000000000",
             "sync s/i1/a.wsp", "drop s/i1/a.wsp"]
    good = "file=CASEDIR/s/i1/a.wsp&retention=0&from=TS(@-30)&until=TS(@-2)&now=TS(@)"
    lines.append('clirawview q=%s' % good)
    for _ in range(6):
        key = rnd.pick(['from', 'until', 'now'])
        bad = rnd.pick(['2020-09-13T12:16:40', 'yesterday', '2106-02-07T06:28:16Z', '2020-09-13T12:16:40%2B09:00', 'TS(@-5)x', 'TS(@-5).5', '1700000000', '', '2020-13-01T00:00:00Z'])
        q = '&'.join('%s=%s' % (k_, bad if k_ == key else v_) for k_, v_ in [p_.split('=', 1) for p_ in good.split('&')])
        lines += ['clirawview q=%s' % q] * rnd.randint(2, 3)
        if rnd.chance(0.5):
            lines.append('clirawview q=%s' % good.replace('TS(@-30)', 'TS(@-%d)' % rnd.randint(3, 40)))
    cases.append({'id': 'c19-server', 'lines': lines, 'tags': {'ops': {'clirawview': len(lines) - 4}}})
    return cases


XFF_ALL = XFF_VALID + [0x3f800001, 0x80000001, 0xbf800000, 0x7fc00000, 0x7f800000, 0xff800000, 0x7f800001, 0xffc00000, 0x40000000, 0x7f7fffff, 0x807fffff]


def boundary_layouts(rnd):
    """(tag, layout): valid lists and lists invalid in exactly one rule / at a boundary."""
    out = []
    base = random_layout(rnd, levels=rnd.pick([2, 3, 4]))
    while len(base) < 2:
        base = random_layout(rnd, levels=3)
    out.append(('valid', base))
    i = rnd.randrange(len(base) - 1)
    (s, n), (s2, n2) = base[i], base[i + 1]
    def repl(j, sn):
        l = list(base); l[j] = sn; return l
    out.append(('equal_steps', repl(i + 1, (s, n2 * (s2 // s) + 1))))
    out.append(('non_dividing', repl(i + 1, (s2 + 1, n2))))
    out.append(('equal_retention', repl(i + 1, (s2, (s * n) // s2)) if (s * n) % s2 == 0 else repl(i, (s, (s2 * n2) // s))))
    out.append(('shorter_retention', repl(i + 1, (s2, max((s * n) // s2 - 1, 1)))))
    out.append(('one_point_too_few', [(s, s2 // s - 1), (s2, n2 + (s * n) // s2 + 1)] if s2 // s - 1 >= 1 else [(1, 1), (2, 1)]))
    out.append(('just_enough_points', [(s, s2 // s), (s2, 2 + (s * (s2 // s)) // s2)]))
    out.append(('zero_step', repl(i, (0, n))))
    out.append(('zero_points', repl(i, (s, 0))))
    out.append(('negative_step', repl(i, (-s, n))))
    out.append(('negative_step_single', [rnd.pick([(-s, n), (-60, 10), (-1, 1), (-2 ** 31, 1), (-1, 2 ** 31), (-2, 3)])]))   # the only archive: no pairwise rule sees it
    out.append(('negative_step_last', base[:1] + [(-base[0][0] * 2, n2)]))
    out.append(('reversed', list(reversed(base))))
    out.append(('empty', []))
    out.append(('single', [base[0]]))
    out.append(('ret_2^31-1', [(1, 2 ** 31 - 1)]))
    out.append(('ret_2^31', [(1, 2 ** 31)]))
    out.append(('ret_2^31_b', [(2, 2 ** 30)]))
    out.append(('ret_wrap', [(65536, 65536)]))
    out.append(('ret_wrap2', [(3, 1431655766)]))
    out.append(('offset_max', [(1, 100), (100, (2 ** 32 - 16 - 24 - 1200) // 12)]))       # last offset fits; total size > 2^32
    out.append(('offset_over', [(1, 357913940), (2, 357913941), (4, 357913942)]))
    out.append(('n_2^32-1', [(1, 2 ** 32 - 1)]))
    # an INNER archive whose retention does not fit 31 bits while its 32-bit wrapped value looks shorter
    # than the next archive's (the last archive is in range, the offsets fit)
    out.append(('inner_4gib', [(1, 400000000), (2, 400000000)]))        # the second offset does not fit 32 bits although each wrapped size does
    out.append(('inner_4gib_b', [(1, 357913942), (2, 357913942), (4, 357913942)]))
    out.append(('inner_ret_2^31', [(2 ** 20, 2048), (2 ** 21, 1023)]))
    out.append(('inner_ret_wrap_small', [(2 ** 20, 4097), (2 ** 21, 1000)]))
    out.append(('inner_ret_wrap_mid', [(2 ** 10, 4), (2 ** 20, 2048), (2 ** 21, 1023)]))
    out.append(('many_levels', [(1, 2), (2, 2), (4, 2), (8, 2), (16, 2), (32, 2)]))
    nl = rnd.randint(7, 14)
    out.append(('many_levels_%d' % nl, [(2 ** i_, 3) for i_ in range(nl)]))
    out.append(('many_levels_9', [(3 ** i_, 4) for i_ in range(9)]))
    out.append(('points_wrap', [(1, 4), (4, 2 ** 32 - 1)]))
    return out


def gen_c07(rnd, n, thorough=False):
    cases = []
    for c in range(n):
        lines = []
        tags = {'rules': {}, 'ops': {}}
        def add(op, line):
            lines.append(line); tags['ops'][op] = tags['ops'].get(op, 0) + 1
        bl = boundary_layouts(rnd)
        for tag, layout in rnd.sample(bl, 7) + [bl[0]] + [rnd.pick([b for b in bl if b[0].startswith('inner_')])] + [rnd.pick([b for b in bl if b[0].startswith('negative_')])] + [rnd.pick([b for b in bl if b[0].startswith('many_levels_')])]:
            tags['rules'][tag] = tags['rules'].get(tag, 0) + 1
            m = rnd.pick([1, 2, 3, 4, 5, 6]) if rnd.chance(0.8) else rnd.pick([0, 7, 8, 9, -1, 2 ** 31, 2 ** 32 + 2, 2 ** 32 + 1, -2 ** 32 + 3, 2 ** 33 + 6, 2 ** 32, 2 ** 40 + 5])
            xff = rnd.pick(XFF_VALID) if rnd.chance(0.75) else rnd.pick(XFF_ALL)
            lay = ' '.join('%d %d' % sn for sn in layout)
            add('newheader', ('enc header %d %08x %d %s' % (m, xff, len(layout), lay)).strip())
            small = sum(nn for _, nn in layout) <= 4000 and all(nn >= 0 for _, nn in layout)
            if all(-2 ** 31 <= s < 2 ** 31 and 0 <= nn < 2 ** 32 for s, nn in layout):
                # decode entry point: the same list as header bytes, with the contiguous offsets,
                # and with one offset off by one
                hb = enc_header_py(m & 0xffffffff, xff, layout)
                add('decheader', 'dec header %s' % hx(hb))
                if layout and rnd.chance(0.4):
                    offs = []
                    off = 16 + 12 * len(layout)
                    for s, nn in layout:
                        offs.append(off); off += 12 * nn
                    j = rnd.randrange(len(layout))
                    offs[j] += rnd.pick([1, -1, 12])
                    add('decheader_badoff', 'dec header %s' % hx(enc_header_py(m & 0xffffffff, xff, layout, offsets=[o & 0xffffffff for o in offs])))
                if rnd.chance(0.3):
                    add('decheader_maxret', 'dec header %s' % hx(enc_header_py(m & 0xffffffff, xff, layout, maxret=rnd.pick([0, 1, 2 ** 32 - 1]))))
                if rnd.chance(0.5):
                    # the same Header variable used for a second decode after a first one that failed (a short
                    # buffer, a rejected method / xFilesFactor / count): the second answer is that of its own bytes
                    mm = rnd.pick([1, 2, 3, 4, 5, 6])
                    good = enc_header_py(mm, rnd.pick(XFF_VALID), layout if layout else [(1, 2)])
                    first = rnd.pick([good[:16], good[:rnd.randint(0, 15)], enc_header_py(rnd.pick([0, 7, 9, 2 ** 31]), 0x3f000000, layout or [(1, 2)]),
                                      enc_header_py(mm, rnd.pick([0x7fc00000, 0xff800000, 0x3f800001, 0xbf800000]), layout or [(1, 2)]),
                                      good[:12] + be32(0), good[:12] + be32(len(layout) + 1) + good[16:], hb[:16]])
                    second = rnd.pick([good, good, hb, first, enc_header_py(rnd.pick([1, 2, 3, 4, 5, 6]), 0x3f000000, [(1, 2)])])
                    add('decreuse', 'decreuse header %s %s' % (hx(first), hx(second)))
            # parse entry point: the list in retention syntax (exact seconds)
            if layout and all(s > 0 and nn > 0 and s * nn <= 2 ** 33 for s, nn in layout):
                add('plist', 'plist %s' % S(','.join('%ds:%ds' % (s, s * nn) for s, nn in layout)))
            # Create / Sync / Open entry point on real files (small layouts only)
            if small:
                add('create', 'create f%d %d %s m %d x %08x' % (len(lines), len(layout), lay, m, xff))
                nm = 'f%d' % (len(lines) - 1)
                lines.append('sync %s' % nm)
                lines.append('open %s' % nm)
                lines.append('hdr %s' % nm)
                if rnd.chance(0.4):
                    # the same file under a second name (a symbolic link to it): Open accepts what the file holds
                    lines += ['symlink %s l%s' % (nm, nm), 'open l%s' % nm, 'hdr l%s' % nm]
                    tags['ops']['open_via_symlink'] = tags['ops'].get('open_via_symlink', 0) + 1
        # lists built from values that were already part of another list (laid out by NewHeader, by
        # the parser, by a created and reopened file): acceptance depends on the list alone
        for _ in range(3):
            first = rnd.pick([[(1, 10), (10, 10)], [(1, 60), (5, 60), (60, 20)], [(2, 30)], [(1, 8), (2, 16), (4, 16), (16, 16)], [(60, 1440), (3600, 168)]])
            j = rnd.randint(1, len(first) + 1)
            items = []
            for q in range(j):
                r = rnd.random()
                if r < 0.5 and q < len(first):
                    items.append('o%d' % q)
                elif r < 0.65:
                    items.append('o%d' % rnd.randrange(len(first)))
                else:
                    ps, pn = first[min(q, len(first) - 1)]
                    items.append('n%d:%d' % (ps * rnd.pick([1, 2, 3, 10]), pn * rnd.pick([1, 2, 3]) + rnd.pick([0, 0, 1])))
            if not any(i.startswith('o') for i in items):
                items[0] = 'o0'
            add('reuse', 'reuse %s %d %08x %s | %d %s' % (rnd.pick(['newheader', 'parse', 'create']), rnd.pick([1, 2, 3]), rnd.pick(XFF_VALID),
                                                       fmt_layout(first), len(items), ' '.join(items)))
        # retention strings whose step or retention does not fit 31 / 32 bits (count x unit around 2^31, 2^32, 2^33)
        units = {'s': 1, 'm': 60, 'h': 3600, 'd': 86400, 'w': 604800, 'y': 31536000}
        for _ in range(4):
            u = rnd.pick(list(units)); lim = rnd.pick([2 ** 31, 2 ** 32, 2 ** 32 + 2 ** 31, 2 ** 33])
            cnt = lim // units[u] + rnd.pick([-1, 0, 1, 2])
            big = '%d%s' % (max(cnt, 1), u)
            add('plist', 'plist %s' % S(rnd.pick(['1s:%s' % big, '%s:%s' % (big, big), '1s:1m,4s:%s' % big, '%s:1' % big])))
        # separators: an empty definition (leading, trailing, doubled comma; blanks) is not a definition
        for sep in rnd.sample(['1m:2h,1h:2d,', ',1m:2h', '1m:2h,,1h:2d', ',', '1s:1m, 1m:1h', ' 1s:1m', '1s:1m ', '1s:1m;1m:1h', '1s:1m,1m:1h'], 4):
            add('plist', 'plist %s' % S(sep))
        for s in rnd.sample(['0', '1', '0.5', '-0', '-0.0', '1.0000001', '1.00000001', 'NaN', 'nan', 'Inf', '-Inf', '1e-50', '0x1p-1', '1_0', '',
                             'abc', '.5', '1e400', '-1e-400', '0.99999997', '0.333333343267', '2', '-1', '1e0', '+1', ' 1', '0,5'], 8):
            add('flagxff', 'cliflagxff %s' % S(s))
        for s in rnd.sample(['average', 'sum', 'last', 'max', 'min', 'first', 'mix', 'percentile', '', 'Average'], 3):
            add('flagmeth', 'flagmeth %s' % S(s))
        cases.append({'id': 'c07-%d' % c, 'lines': lines, 'tags': tags})
    # small-scope exhaustive sweep: EVERY two-archive list with steps and counts in a small range
    # (zero, equal, non-dividing, one point too few, equal retentions ... all occur), through
    # NewHeader, the header decoder and the retention parser; xFilesFactor: every 2^k-spaced and
    # boundary bit pattern
    vals = [0, 1, 2, 3, 4, 6] if not thorough else [0, 1, 2, 3, 4, 5, 6, 8, 12]
    chunk, lines = 0, []
    for s1 in vals:
        for n1 in vals:
            for s2 in vals:
                for n2 in vals:
                    layout = [(s1, n1), (s2, n2)]
                    lay = '%d %d %d %d' % (s1, n1, s2, n2)
                    lines.append('enc header 2 3f000000 2 %s' % lay)
                    lines.append('dec header %s' % hx(enc_header_py(2, 0x3f000000, layout)))
                    if s1 > 0 and n1 > 0 and s2 > 0 and n2 > 0:
                        lines.append('plist %s' % S('%ds:%ds,%ds:%ds' % (s1, s1 * n1, s2, s2 * n2)))
                    if len(lines) > 1500:
                        cases.append({'id': 'c07-sweep%d' % chunk, 'lines': lines, 'tags': {'rules': {'exhaustive_pairs': len(lines)}, 'ops': {}}})
                        chunk, lines = chunk + 1, []
    xffs = [0, 1, 0x80000000, 0x80000001, 0x3f800000, 0x3f800001, 0x3f7fffff, 0x7f800000, 0x7f800001, 0x7fc00000, 0xff800000, 0xffc00000, 0xbf800000, 0x00800000, 0x007fffff]
    xffs += [1 << k for k in range(32)] + [(1 << k) - 1 for k in range(1, 33)]
    for x in sorted(set(xffs)):
        lines.append('enc header 1 %08x 1 1 2' % x)
        lines.append('dec header %s' % hx(enc_header_py(1, x, [(1, 2)])))
    cases.append({'id': 'c07-sweep%d' % chunk, 'lines': lines, 'tags': {'rules': {'exhaustive_pairs': len(lines)}, 'ops': {}}})
    return cases


GENS = {'C19': gen_c19, 'C07': gen_c07}
