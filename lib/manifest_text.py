"""Texts of MANIFEST.json (level claimed / trusted base per property)."""
TECHNIQUE = ('Rocq (Coq 8.16) theorems on a hand-written executable model + differential correspondence of the extracted model with the Go code '
             '+ the integer kernel and the constants of the package translated from the Go source on every run and proved equal to the model (coq/theories/Tie)')
HOOK_COMMITS = ['836edf2']
NOTES = ('Every check: (1) audits and builds the Coq development and re-checks Props/<ID>.v with Print Assumptions; '
         '(1b) for C01-C04, C06, C07, C15, C19, C20: harness/cmd/wtgo2coq translates the integer kernel of package whispertool (floorMod, Timestamp.Add/Sub/Truncate, ArchiveInfo.MaxRetention/pointIndex/pointOffsetAt/interval/intervalForWrite, Header.Size, Header.ExpectedFileSize, ArchiveInfo.validate, ArchiveInfoList.validate and ArchiveInfoList.fillOffset with their loops) '
         'and its integer constants from /repo\'s working tree into coq/theories/Gen/GoKernel.v, and coq/theories/Tie/tie_*.v re-prove that the model functions equal the translation for all inputs (DESIGN.md 11.7); '
         '(2) rebuilds the Go driver from /repo\'s working tree and compares the real code with the extracted model on generated cases. '
         'A mismatch on an observable the property constrains is reported as VIOLATION with the shrunk case as replay; '
         'a broken proof obligation with no failing input found is reported as VIOLATION ... no-failing-input-found. '
         'Known findings: /verif/KNOWN_FINDINGS.txt (read-only at run time): "finding:" lines name the exact failing observation that is reported as KNOWN-FINDING (exit 0); '
         '"fixed:" lines are the history of the defects repaired in /repo by "fix:" commits and suppress nothing.')
NOT_CLAIMED = {}

_TB = ('Trusted: Coq kernel (vm_compute, no native_compute), no axioms declared; the hand model (Model/*.v) and its tie to the code '
       '(Go driver + OCaml extraction via ExtrOcamlBasic + generators) which is differential testing; the translator harness/cmd/wtgo2coq (Go integer semantics: wraps per type, / and % as Z.quot and Z.rem) '
       'where the tie by regeneration applies; Flocq instance for execution only. ')
LEVEL = {
    'C01': {'text': 'Theorem for every history, layout, window and clock of the no-wrap domain: a fetch returns live(write log) slot by slot '
                    '(refinement of the physical ring to an abstract log, induction over operations); the model is tied to the code by '
                    'differential runs after every operation.',
            'design_ref': '5 C01, 9a',
            'note': _TB + 'Clock domain D (differences fit int32). filebuffer modelled as identity on the slot view (byte level: C05/C06).'},
    'C02': {'text': 'Theorem for every float-operation record: propagate/chain refine the log-level specification (known values in time order, '
                    'threshold, never from empty, continue only if stored, frame on both sides: finer logs untouched, and in the coarser log only intervals that cover a written point are recomputed - C02_only_intervals_of_written_points_are_recomputed), total for the six methods. For the execution instance (Flocq binary32) the known-fraction test is round32(k/n) < xFilesFactor over the reals and never rejects a fraction that is at least xFilesFactor (C02_known_fraction_test_meaning, C02_fraction_at_least_xff_is_stored; these two theorems depend on the standard real-number axioms sig_not_dec, sig_forall_dec, functional_extensionality_dep, classic).',
            'design_ref': '5 C02, 9a',
            'note': _TB + 'The float32 known-fraction test is an abstract operation in the theorems and Flocq binary32 in the runs.'},
    'C03': {'text': 'Theorems: extractPoints on a sorted batch is the age filter; the batch loop refines per-archive age bands over the stably sorted batch; '
                    'single updates accept iff in (now-maxRet, now] and go to the first archive with retention >= age. Same slot: the sort is stable (equal timestamps keep the supplied order), '
                    'inside a window every slot shows the last point of the sorted batch aligned to it, and two batches with the same per-timestamp subsequences are the same update '
                    '(so the order of a batch matters only among equal timestamps; between different timestamps of one slot the later timestamp wins - the reading of the last sentence recorded in DESIGN.md 11.4). '
                    'Whisper.Update / UpdateMany (the calls that read the clock) are the best-archive updates at the instant the library clock shows; they are run with whispertool.Now replaced.',
            'design_ref': '5 C03, 9a, 11.4',
            'note': _TB + 'sort.Stable modelled as stable insertion sort.'},
    'C04': {'text': 'Theorems: error iff, no-series iff, bounds/step/count of the series as a function of layout, window and clock only; best archive = first covering; '
                    'Whisper.Fetch and a now argument of 0 obey the same contract at the instant the library clock shows (run with whispertool.Now replaced); a stale max-retention word in the header changes nothing.',
            'design_ref': '5 C04',
            'note': _TB},
    'C05': {'text': 'Theorems on the page-buffer model for any page size, offset and length: writes change the view exactly in the written range and never the disk, reads return the view and change nothing, '
                    'Flush makes disk = view and keeps view and length; on the handle model: a fresh Open after Sync fetches what the live handle fetches, and for every history and every abandonment point the disk is '
                    'the state of the last Sync. Composed: a 12-byte slot write through the buffer is putPointAt on the archives of the viewed image and leaves the disk alone, a slot read returns the stored point, '
                    'and Flush followed by Open on the disk bytes returns exactly the header and archives the handle showed. '
                    'The code is compared after every operation (file bytes vs last-sync snapshot, second-handle fetches, a waiting opener), for failing CLI writes, and for handles that cannot write (what Sync acknowledges must be what a second handle reads); Create without O_EXCL over a synced file changes nothing before its own Sync (create_over, theorem and createover operation); batches re-sent with one point changed are on disk after Sync.',
            'design_ref': '5 C05',
            'note': _TB + 'Process death is modelled as dropping the handle with an intact kernel; power loss / fsync durability is outside the model, and so are failing writes: the filebuffer dependency drops the error of a failed pwritev, so the OS writes of Sync are assumed to succeed (handles that cannot write at all -- read-only flag, unwritable file -- are exercised by the rosync / unwritable operations).'},
    'C14': {'text': 'Theorems for every encodable object and every remainder: decode(encode x ++ r) = (x, r); for every proper prefix the decoder '
                    'answers Want n with |prefix| < n <= |message| (scalars, point, point list, series, header); concatenated messages decode in sequence.',
            'design_ref': '5 C14',
            'note': _TB + 'Bytes are modelled as integers 0..255 and floats as their bit patterns.'},
    'C07': {'text': 'Theorems: the code\'s validation with freshly filled offsets accepts iff the declarative well-formedness (over unbounded integers) holds; '
                    'NewHeader, Header.TakeFrom (for every complete encoding with in-range fields) and ParseArchiveInfoList accept exactly what passes that validation, '
                    'decoded offsets are the contiguous ones, accepted headers round-trip; the xFilesFactor bit test accepts exactly the float32 patterns denoting a real number in [0,1] (Flocq IEEE-754 semantics). '
                    'All entry points incl. real Create/Sync/Open and the CLI flags are compared with the model.',
            'design_ref': '5 C07',
            'note': _TB + 'C07_xff_valid_iff_number_in_unit_interval depends on the standard library axioms ClassicalDedekindReals.sig_not_dec, sig_forall_dec, FunctionalExtensionality.functional_extensionality_dep, Classical_Prop.classic (real numbers); every other theorem is closed under the global context. strconv.ParseFloat is Go\'s own and its result is an input of the model.'},
    'C19': {'text': 'Theorem: parse(print t) = t for all 2^32 timestamps (calendar by a vm_compute sweep over all 49 711 days lifted to a universal statement). '
                    'parse(print d) = d for all 2^31 non-negative durations; an accepted duration string is a numeral plus one unit letter and means numeral * unit <= 2^31-1; '
                    'every valid archive list and every method name round-trips; the -agg-method flag accepts exactly the six storable methods under the names they are printed with. The executable model of printers and parsers is also compared with the code on boundary numerals, '
                    'malformed classes and exhaustive short strings.',
            'design_ref': '5 C19',
            'note': _TB + 'time.Parse/Format are modelled for the one fixed layout, including the liberal forms time.Parse accepts (one-digit hour, fractional seconds).'},
    'C08': {'text': 'Theorems on the command model: a copy that does not report success leaves an existing destination exactly as it was; a missing destination is created '
                    'with its header synced; nothing differs => nothing written, no report; with an existing destination the outcome does not depend on the creation options (C08_existing_destination_ignores_creation_options). END TO END (C08_successful_copy_equalizes, proved through the refinement of the physical rings to '
                    'write logs): for every destination content a history of updates can produce, every valid layout, clock of the domain, window, archive selection and NaN mode and every '
                    'well-formed source list (the one read from any such source file is), a copy that reports success leaves a destination which, opened afresh, answers the same fetch with '
                    'series of the same ranges whose difference from the source is empty - slot by slot the source value wherever it is to be copied (C08_empty_difference_slotwise); a second '
                    'copy is a no-op (C08_repeat_copy_changes_nothing) and diff is clean (C08_then_diff_is_clean). GLOB MODE (Model/World.v, the loop the harness runs is the extracted run_copies): when no file is both source and destination, a run over any list of matched files that reports success has done for EVERY file exactly the single-file copy on the files as they were and changed no other file (C08_glob_copies_every_matched_file); a failing run stopped at the first file whose copy fails alone and left the later destinations untouched (C08_glob_stops_at_first_failure). The real CopyCommand is run against the model on every run, including a glob run whose later source is written while the first file is being copied.',
            'design_ref': '5 C08',
            'note': _TB + 'Commands read the wall clock; the harness recovers the clock from the command output. filepath.Glob is an oracle.'},
    'C09': {'text': 'Theorems: the listing is exactly the filter of the differing slots (in slot order, both values); clean iff no slot differs; value equality is NaN-aware '
                    '(+0 = -0, last bit counts); verdict symmetric; self-comparison clean; verdicts of the comparison are ok/diff/err only; the library comparison API agrees with itself '
                    '(TimeSeries.Equal iff same range, step, length and DiffPoints lists nothing; Points.Equal iff equally long and Points.Diff lists nothing), run against the code by the tsapi operation.',
            'design_ref': '5 C09',
            'note': _TB + 'Which side is named when both files are missing depends on goroutine scheduling and is not compared.'},
    'C10': {'text': 'Theorems for every float-operation record: the j-th summed value is the left fold of Value.Add over the files in glob order; Value.Add skips NaN; '
                    'NaN when no file has a value; window/step of the first file; a single file sums to itself.',
            'design_ref': '5 C10',
            'note': _TB + '"NaN only if none has a value" holds up to IEEE overflow of the float sum itself (+Inf + -Inf), stated in the theorem.'},
    'C11': {'text': 'Theorems: sum-copy is copy_core applied to the sum with NaN copying (so C08/C10 theorems apply), sum-diff is diff_core on the sum; a destination equal to the sum is clean; '
                    'failure leaves an existing destination untouched. END TO END (C11_sumcopy_stores_the_sum): the sum of files that histories of updates can produce is a well-formed list '
                    '(C11_sum_lists_are_well_formed), and after a sum-copy that reports success the destination, opened afresh, holds in every slot of every selected window a value equal to '
                    'the sum\'s (NaN where the sum is NaN) and sum-diff over the same window is clean. SEVERAL ITEMS (extracted run_sum_copies): a successful sum-copy did for every matched item what the one-item command does on the files as they were (C11_every_item_is_sum_copied); the sum-diff verdict over items is run_diffs (C09 theorems).',
            'design_ref': '5 C11', 'note': _TB},
    'C12': {'text': 'Theorems: the view/sum and view-raw responses decode to exactly the header and series/point lists the handler encoded; the empty body is the not-exist answer; '
                    'a text error body never decodes as a header. Request side: for every byte string used as a value (file names with + & % = ; # space, non-ASCII) the query the client builds with QueryEscape '
                    'parses back (ParseQuery, as ParseForm applies it) to exactly the pairs sent; the escaped form never contains a separator. '
                    'Every read command is run against a real server and against the directory and both are compared with the model; the net/url model is compared with the real package. END TO END (Model/Server.v, Proofs/ServerProofs.v): the /view handler applied to the query the client builds for (file, archive, from, until, now) performs exactly the local read with these arguments, for every byte string as file name, every archive number and every 32-bit window and clock (C12_server_performs_the_local_read), so the client holds the local result, the not-exist answer or an error accordingly (C12_remote_view_is_local_view); the same for /sum (C12_server_performs_the_local_sum). The real handler is run on raw queries of every shape (clirawview) and the request of the real client is captured and compared with that of the model (cliquerycap). '
                    'Which file a name denotes (Model/Path.v = filepath.Clean / Join, extracted and used for every lookup, compared with Go on every run): resolution is idempotent, independent of the spelling of the base, and the server (served directory + name received) and the local read (base + relative name) resolve to the same elements, names that leave the base through .. included.',
            'design_ref': '5 C12',
            'note': _TB + 'net/http is trusted to deliver the handler\'s bytes and headers; url.QueryEscape / ParseForm are modelled in Model/Query.v and compared with the real package.'},
    'C16': {'text': 'Theorems: copy-like commands never answer diff and answer not-exist only for a missing source; no success => existing destination untouched; comparison verdicts are ok/diff/err. '
                    'no panic is proved for fetch (every id, window, contents), view, view-raw, diff, sum and sum-diff on files whose archives are well-formed rings; for copy / sum-copy a panic can only '
                    'originate in the library batch update, and (C16_copy_never_panics) on every destination content a history of updates can produce it does not: copy / sum-copy end in success or an error. '
                    'THE COMMAND LINE (Model/Args.v, compared with the real Parse of every subcommand by the cliargs operation): whatever the arguments, Execute only runs with an ordered window, 32-bit timestamps, a storable aggregation method, an archive list the retention parser accepts and every required option (C16_execute_runs_only_with_sound_options / _required_options); otherwise the invocation ends with status 2 (or 0 for -h). A -text-out target that cannot be opened or written never yields success. The whole fault matrix (incl. damaged files announcing more archives than fit a page, items of 66-90 files, negative generate bounds) is run against the real commands; an operation that does not return within 120 s is reported as a hang.',
            'design_ref': '5 C16',
            'note': _TB + 'A read-only destination directory cannot be exercised as root and is not part of the matrix.'},
    'C18': {'text': 'Theorems: view emits one record per slot of each selected series with instant from+k*step and the k-th fetched value, archive then time order; '
                    'view-raw shows a physical slot iff it lies in the requested range; for any slot contents a non-NaN fetched value is a physical slot with exactly the fetched instant, and a non-NaN point printed by view '
                    'inside the requested range is among view-raw\'s records (sorted or not); the -header switch only adds the header record (C18_header_switch_only_adds_the_header, ..._raw).',
            'design_ref': '5 C18',
            'note': _TB + 'Shortest-decimal float formatting is Go\'s own: printed values are parsed back with strconv.ParseFloat before comparison.'},
    'C20': {'text': 'Theorems: generate refuses an existing file, the header is the requested one, without fill every slot is empty; END TO END (C20_file_is_the_generated_lists): for every '
                    'layout validation accepts, every instant of the clock domain and all generated lists that are complete, the file generate leaves behind, read back archive by archive over the '
                    'whole retention, is exactly those lists (no empty slot, nothing left from propagation), under the requested header; what gen_ok accepts is bounded and sum-consistent. '
                    'gen_ok (Model/Generate.v, extracted) is evaluated on the lists of every real run: the command at the wall clock and the generator + per-archive write at explicit instants '
                    '(aligned or not, last finer slot of a coarser interval, before and after 2^31) through the verif hook. A bound of the random values that cannot be used (negative, or not below 2^31) is an error before the file is created (C20_unusable_bound_is_an_error; finding F14). The file is created where the operating system finds the name given as -dest (phys_elems, Model/Path.v: directory links first, then ..; equal to the cleaned text when no link is on the way - C20_destination_without_links_is_the_cleaned_name, C20_destination_through_a_link; scenario c20-linkdest).',
            'design_ref': '5 C20',
            'note': _TB + 'math/rand is an oracle (its choices are inputs of the model); hook cmd/verif_hooks.go exposes randomPointsList / updateFileDataWithPointsList with explicit seed and clock.'},
    'C06': {'text': 'Theorems: file length = header + 12 per slot; big-endian header in the classic field order with archives contiguous; offsets of a validated header are the running sums; '
                    'Open on the laid-out bytes returns the same header and every slot. Reader agreement: whispertool, the real go-whisper and both reader models are run on the same bytes '
                    'written by either library; and C06_readers_agree: the reference reader model returns no series exactly when whispertool does and otherwise the very same series, for every clock of the domain and every window not degenerate on a never-written archive.',
            'design_ref': '5 C06',
            'note': _TB + 'go-whisper is modelled by Model/GoWhisperRef.v (its Fetch for the classic format), validated against the real go-whisper on every run.'},
    'C13': {'text': 'PARTIAL (protocol level). Theorems for every schedule: mutual exclusion is an invariant; the disk left by any interleaving is the sequential composition of the sessions in '
                    'lock-acquisition order (hence no lost update: n add-one sessions leave n); a failed Open leaves the lock free. Runtime side exercised, not proved: flock probes after every '
                    'failing Open variant, blocking second Open in-process and cross-process, concurrent sessions with readers; the commands that write are one session on their file: a copy from a server keeps its destination locked while the source is fetched, generate keeps the file it creates locked (and present) until it returns.',
            'design_ref': '5 C13',
            'note': _TB + 'Assumed: flock(2) grants LOCK_EX to one open file description at a time and releases it on close; the Go scheduler and GC finalisers are outside the model.'},
    'C15': {'text': 'Theorems: decoders are total functions into Ok/Want/Err with Go\'s integer wraps written out; a successful decode has allocated at most the size of its input; Open accepts a file only with a '
                    'validated header and sufficient length, and then every archive is a ring of the announced size; fetches on any such ring never panic whatever the slots hold (unaligned / garbage base included), '
                    'and neither do single and batch updates (C15_update_never_panics_on_any_contents, C15_batch_update_never_panics_on_any_contents: success or the range error for any slot contents, every storable method, clocks of the domain). The remote-read client is run against answers that announce more bytes than they send (memory stays in proportion to what arrived).',
            'design_ref': '5 C15',
            'note': _TB + 'Allocation is modelled as the size of the decoded result; the run measures runtime.MemStats.TotalAlloc in a child process under an address-space limit.'},
    'C17': {'text': 'PARTIAL. Theorems on the page-buffer model: a read never changes what the buffer shows nor the disk, and a read issued after another read returns what it returns alone '
                    '(so any interleaving of atomic ReadAt steps gives each fetch its own answer). Data-race freedom (Go memory model) is not expressible in the model: it is exercised by concurrent fetches, '
                    'sum and HTTP requests under the race detector.',
            'design_ref': '5 C17',
            'note': _TB + 'Assumed: filebuffer.ReadAt is atomic (it holds a mutex); net/http serves requests on independent goroutines.'},
}
