"""Texts of MANIFEST.json (level claimed / trusted base per property)."""
TECHNIQUE = 'Rocq (Coq 8.16) theorems on a hand-written executable model + differential correspondence of the extracted model with the Go code'
HOOK_COMMITS = []
NOTES = ('Every check: (1) audits and builds the Coq development and re-checks Props/<ID>.v with Print Assumptions; '
         '(2) rebuilds the Go driver from /repo\'s working tree and compares the real code with the extracted model on generated cases. '
         'A mismatch on an observable the property constrains is reported as VIOLATION with the shrunk case as replay; '
         'a broken proof obligation with no failing input found is reported as VIOLATION ... no-failing-input-found.')
NOT_CLAIMED = {}

_TB = ('Trusted: Coq kernel (vm_compute, no native_compute), no axioms declared; the hand model (Model/*.v) and its tie to the code '
       '(Go driver + OCaml extraction via ExtrOcamlBasic + generators) which is differential testing; Flocq instance for execution only. ')
LEVEL = {
    'C01': {'text': 'Theorem for every history, layout, window and clock of the no-wrap domain: a fetch returns live(write log) slot by slot '
                    '(refinement of the physical ring to an abstract log, induction over operations); the model is tied to the code by '
                    'differential runs after every operation.',
            'design_ref': '5 C01, 9a',
            'note': _TB + 'Clock domain D (differences fit int32). filebuffer modelled as identity on the slot view (byte level: C05/C06).'},
    'C02': {'text': 'Theorem for every float-operation record: propagate/chain refine the log-level specification (known values in time order, '
                    'threshold, never from empty, continue only if stored, frame), total for the six methods.',
            'design_ref': '5 C02, 9a',
            'note': _TB + 'The float32 known-fraction test is an abstract operation in the theorems and Flocq binary32 in the runs.'},
    'C03': {'text': 'Theorems: extractPoints on a sorted batch is the age filter; the batch loop refines per-archive age bands over the stably sorted batch; '
                    'single updates accept iff in (now-maxRet, now] and go to the first archive with retention >= age.',
            'design_ref': '5 C03, 9a',
            'note': _TB + 'sort.Stable modelled as stable insertion sort.'},
    'C04': {'text': 'Theorems: error iff, no-series iff, bounds/step/count of the series as a function of layout, window and clock only; best archive = first covering.',
            'design_ref': '5 C04',
            'note': _TB},
    'C05': {'text': 'Theorems on the page-buffer model (flush makes disk = view for any page size); slot-view handle model with an explicit disk copy; '
                    'the code is compared after every operation (file bytes vs last-sync snapshot, second handle fetches).',
            'design_ref': '5 C05',
            'note': _TB + 'Process death is modelled as dropping the handle with an intact kernel; power loss / fsync durability is outside the model.'},
    'C14': {'text': 'Theorems for every encodable object and every remainder: decode(encode x ++ r) = (x, r); for every proper prefix the decoder '
                    'answers Want n with |prefix| < n <= |message| (scalars, point, point list, series, header); concatenated messages decode in sequence.',
            'design_ref': '5 C14',
            'note': _TB + 'Bytes are modelled as integers 0..255 and floats as their bit patterns.'},
    'C07': {'text': 'Theorems: the code\'s validation with freshly filled offsets accepts iff the declarative well-formedness (over unbounded integers) holds; '
                    'NewHeader, Header.TakeFrom (for every complete encoding with in-range fields) and ParseArchiveInfoList accept exactly what passes that validation, '
                    'decoded offsets are the contiguous ones, accepted headers round-trip. All entry points incl. real Create/Sync/Open and the CLI flags are compared with the model.',
            'design_ref': '5 C07',
            'note': _TB + 'xFilesFactor validity is decided on float32 bit patterns; strconv.ParseFloat is Go\'s own and its result is an input of the model.'},
    'C19': {'text': 'Theorem: parse(print t) = t for all 2^32 timestamps (calendar by a vm_compute sweep over all 49 711 days lifted to a universal statement). '
                    'Durations, retention lists, method names: the executable model of printers and parsers is compared with the code on boundary numerals, '
                    'malformed classes and exhaustive short strings (their round-trip theorems are listed as not yet proved in DESIGN.md).',
            'design_ref': '5 C19',
            'note': _TB + 'time.Parse/Format are modelled for the one fixed layout, including the liberal forms time.Parse accepts (one-digit hour, fractional seconds).'},
}
