"""Per-property configuration of the checks."""
import glob, os, re
import gens_core, gens_codec, gens_text, gens_cli, gens_concur

V = os.path.dirname(os.path.dirname(os.path.abspath(__file__)))

BASE_TRUSTED = [
    'Coq 8.16.1 kernel (coqc; vm_compute used in finite sweeps and examples; no native_compute)',
    'no axiom declared by the development (audited on every run: Admitted/admit/Axiom/Parameter/Conjecture/'
    'Variable or Hypothesis outside a section/disabled checks are rejected)',
    'hand-written Gallina model of the Go code (coq/theories/Model) - tied to /repo by the correspondence run and, for the integer kernel '
    '(floorMod, Timestamp.Add/Sub/Truncate, ArchiveInfo.MaxRetention/pointIndex/pointOffsetAt/interval/intervalForWrite, Header.Size, Header.ExpectedFileSize, ArchiveInfoList.validate, ArchiveInfoList.fillOffset, the exported integer constants), '
    'by theorems against a translation of the current Go source (coq/theories/Tie, regenerated and re-proved on every run)',
    'harness/cmd/wtgo2coq (hand-written translator, Go standard library only: go/parser, go/types for types and constant values): its rendering of Go integer semantics '
    '(every arithmetic result and conversion wrapped to the width of its Go type, int = 64 bits, / and % = Z.quot and Z.rem, division by zero not modelled - the tie theorems exclude it) is trusted',
    'extraction: ExtrOcamlBasic only (its Extract Inductive for bool, option, unit, list, prod, sumbool, sumor and '
    'Extract Inlined Constant for fst, snd, andb, orb, negb); Z/positive/N stay extracted inductives; no other Extract Constant',
    'OCaml 4.13.1 compiler; ocaml/driver.ml + ocaml/zutil.ml (case parser / printer) hand-written',
    'Flocq 4.1.0 binary64/binary32 operations instantiate the abstract float operations for execution only '
    '(Inst/FloatInst.v; depends on the standard real-number axioms sig_not_dec, sig_forall_dec, '
    'functional_extensionality_dep, classic) - the theorems hold for every float-operation record; the three theorems that speak about real numbers, '
    'C07_xff_valid_iff_number_in_unit_interval, C02_known_fraction_test_meaning and C02_fraction_at_least_xff_is_stored, depend on exactly these four standard-library axioms (Print Assumptions output is in the evidence)',
    'harness/cmd/wtdriver (Go driver), lib/*.py (generators, comparison, shrinking): differential testing, '
    'ties model and code only on the generated cases',
]

COMMON_ASSUMPTIONS = [
    'clock domain D: 2*maxRetention <= now and now + 2*maxRetention < 2^31 (Timestamp.Sub is an int32); '
    'outside D the model still mirrors the 32-bit wraps and the correspondence is still run, but the property is not claimed',
    'the operating system delivers the bytes written by pwritev/ftruncate to later preadv calls of the same file',
]


def ignore_missing_side(x, y):
    """when both sides are missing, which one the report names depends on the scheduling of the two reads"""
    return y == 'out missing any' and x.startswith('out missing ')


_MAXMIN = __import__('re').compile(r'(\bm [45]\b|\bm=[45]\b)')


_HEX16 = __import__('re').compile(r'(?<= )[0-9a-f]{16}(?= |$)')


def _determined_for_max_min(m):
    b = int(m.group(0), 16)
    if b == 0x8000000000000000:
        return '0000000000000000'
    if (b >> 52) & 0x7ff == 0x7ff and b & ((1 << 52) - 1):
        return '4045000000000000'
    return m.group(0)


def no_signed_zero_under_max_min(gen):
    """max / min over values that contain both -0 and +0, or a NaN written as a value: -0 and +0 are the same value and
    a maximum of a set with a NaN in it is not defined, so which bit pattern an implementation returns (what its scan
    meets first, or what IEEE's maximum says) is not determined by any property.  Cases that create a file with one
    of these two methods therefore write neither -0 nor NaN values, do not copy NaNs, and do not sum-copy (which
    stores NaN over destination values the sum does not have)."""
    def g(rnd, n, thorough=False):
        cases = gen(rnd, n, thorough)
        for cs in cases:
            if any(_MAXMIN.search(l) for l in cs['lines']):
                cs['lines'] = [_HEX16.sub(_determined_for_max_min, l).replace(' copynan=1', ' copynan=0') for l in cs['lines']]
                if any(l.startswith('clisumcopy ') for l in cs['lines']):
                    # sum-copy stores "no value" (NaN) wherever the sum has none and the destination has one -- a NaN
                    # written as a value; in a max / min destination its propagation is the undetermined case again:
                    # such cases use the method sum instead
                    cs['lines'] = [_MAXMIN.sub(lambda m_: m_.group(0)[:-1] + '2', l) for l in cs['lines']]
        return cases
    return g


def entry(gen, quick, thorough, rule, modelled='', **kw):
    gen = no_signed_zero_under_max_min(gen)
    d = {'gen': gen, 'cases': (quick, thorough), 'rule': rule, 'modelled': modelled, 'ignore': ignore_missing_side}
    d.update(kw)
    return d


RULE_LIB = ('histories generated from one seeded PRNG state (boundary-first ages, clocks, windows, layouts incl. '
            '1- and 2-slot rings, barely-longer coarse rings, multi-page archives); a case is distinct by the hash of '
            'its resolved operation list and non-trivial when at least one compared fetch returns a series with a non-NaN value')

PROPS = {
    'C01': entry(gens_core.GENS['C01'], 400, 6000, RULE_LIB,
                 'whisper.go ring read/write path (pointIndex, putPointAt, fetchRawPoints, clearOldPoints, FetchFromArchive), '
                 'hnakamur/filebuffer as identity on the slot view'),
    'C02': entry(gens_core.GENS['C02'], 400, 6000, RULE_LIB,
                 'propagateChain/propagate/filterValidValues/aggregate; float arithmetic abstract in the theorems, Flocq in the runs'),
    'C03': entry(gens_core.GENS['C03'], 400, 6000, RULE_LIB,
                 'UpdatePointForArchive, UpdatePointsForArchive, sort.Stable (modelled as stable insertion sort), extractPoints, alignPoints'),
    'C04': entry(gens_core.GENS['C04'], 800, 12000,
                 RULE_LIB.replace('non-trivial when at least one compared fetch returns a series with a non-NaN value',
                                  'non-trivial when at least one fetch returns a series (shape observed)'),
                 'FetchFromArchive clamping, interval arithmetic, findBestArchive'),
    'C05': entry(lambda rnd, n, thorough=False: gens_core.gen_c05(rnd, n, thorough) + gens_cli.gen_c05_cli(rnd, max(n // 10, 8), thorough) + [{'id': 'c05-wait-%d' % i, 'lines': gens_concur.waitopen_lines(rnd), 'tags': {'layout': 'multipage-single', 'ops': {'waiting_opener': 1}}} for i in range(6)], 200, 3000, RULE_LIB,
                 'Create/Sync/Close/Open at the slot-view level; filebuffer page cache in Model/FileBuf.v'),
    'C14': entry(gens_codec.gen_c14, 500, 8000,
                 'objects of every codec kind (boundary and random field values, NaN payloads, infinities, signed zero) generated from one '
                 'seeded PRNG state; every proper prefix (all of them up to 80 bytes, boundary + random ones beyond), arbitrary trailers and '
                 'a second message behind the first; a case is distinct by the hash of its operation list and non-trivial when a decode succeeds',
                 'AppendTo/TakeFrom of Timestamp, Duration, Value, Point, Points, TimeSeries, ArchiveInfo, Header'),
    'C19': entry(gens_text.gen_c19, 300, 4000,
                 'boundary numerals of every unit, all strings over the duration alphabet up to length 3 (thorough), malformed classes, '
                 'day boundaries of every year 1970-2106, liberal forms accepted by time.Parse (one-digit hour, fractional seconds), '
                 'retention lists, method names; distinct by operation list, non-trivial when some parse succeeds',
                 'ParseDuration/Duration.String, ParseTimestamp/Timestamp.String (time.Parse/Format for the one fixed layout), '
                 'ParseArchiveInfo(List)/String, AggregationMethodString/String, the CLI flag values', shrink=False),
    'C07': entry(gens_text.gen_c07, 300, 4000,
                 'archive lists valid and invalid in exactly one rule at its boundary (equal steps, non-dividing, equal/shorter retention, '
                 'one point too few, zeros, 2^31 and 2^32 neighbours), methods 0..9, float32 xFilesFactor patterns incl. NaN/Inf/-0, through '
                 'NewHeader, Header.TakeFrom, ParseArchiveInfoList, Create+Sync+Open and the CLI flags; non-trivial when something is accepted',
                 'NewHeader, fillOffset, validate, Header.TakeFrom, ParseArchiveInfoList, Create/Open, cmd/flags.go', shrink=False),
    'C08': entry(gens_cli.GENS['C08'], 150, 2500, 'real CopyCommand runs on generated source/destination pairs (sparse, NaN holes, coarser archives '
                 'inconsistent with finer ones; missing, fresh, filled, partly equal, equal and mismatching destinations; default, narrow, past, '
                 'beyond-retention, degenerate and future windows; archive selections incl. out of range; both NaN modes; glob trees); '
                 'non-trivial when a destination fetch returns a value', 'cmd/copy.go, cmd/timeserieslist.go, cmd/view.go fetchTimeSeriesList', shrink=False, timeout=3000),
    'C09': entry(gens_cli.GENS['C09'], 200, 3000, 'real DiffCommand runs on file pairs (same, exact copy, few slots differ, NaN vs value, +0 vs -0, last bit, '
                 'missing sides, differing layouts, unsynced destination), both directions, glob trees; non-trivial when both files were read',
                 'cmd/diff.go', shrink=False, ignore=ignore_missing_side),
    'C10': entry(gens_cli.GENS['C10'], 150, 2500, 'real SumCommand runs on item trees of 1-12 files with holes, all-NaN columns, a file of differing layout '
                 'in first/middle/last position, patterns matching nothing, order-sensitive values with the first file held locked', 'cmd/sum.go, cmd/glob.go', shrink=False),
    'C11': entry(gens_cli.GENS['C11'], 100, 2000, 'real SumCopyCommand / SumDiffCommand runs on item trees with absent, empty, partial, stale and mismatching '
                 'destinations; sum-diff before and after, a later change of one source slot, second sum-copy', 'cmd/sum_copy.go, cmd/sum_diff.go', shrink=False, ignore=ignore_missing_side),
    'C18': entry(gens_cli.GENS['C18'], 200, 3000, 'real ViewCommand / ViewRawCommand runs (header on/off, sort on/off, windows incl. degenerate, archive selections) '
                 'on files with 17-digit values, infinities and NaN; text parsed back with Go\'s own ParseFloat/time.Parse', 'cmd/view.go, cmd/view_raw.go, cmd/points_list.go', shrink=False),
    'C20': entry(gens_cli.GENS['C20'], 150, 2500, 'real GenerateCommand runs at the wall clock (small steps, so every alignment of the instant to the steps occurs), '
                 'fill on/off, maxima incl. 0, existing destination; one third of the cases run the generator and the per-archive write at an explicit instant '
                 '(hook): 1.7e9, around 2^31, 2^31+1e8, 3e9, each aligned / unaligned / in the last finer slot of the coarsest interval, layouts incl. finer retention = one coarser step', 'cmd/generate.go', shrink=False),
    'C12': entry(gens_cli.GENS['C12'], 80, 1500, 'one real server (whispertool server) per driver process; view, view-raw, sum, both sides of diff, the source of '
                 'copy and file/item globbing run once against the directory and once against the URL, plus raw HTTP queries with a clock in the past; '
                 'file names contain + & % = ; #; the model predicts one answer for both modes', 'cmd/server.go handlers, client decoders in cmd/view.go, cmd/view_raw.go, cmd/glob.go, cmd/sum.go; net/http transports bytes', shrink=False),
    'C16': entry(gens_cli.GENS['C16'], 120, 2000, 'cells of the matrix subcommand (view, view-raw, diff, copy, sum, sum-copy, sum-diff, generate) x archive selection '
                 '(all / each id / out of range) x window (default, narrow, past, beyond retention, degenerate, future) x fault (text-out that cannot be opened, '
                 '/dev/full with a short and with a long report, missing source, unreadable source, mismatching destination layout); the status (ok / diff / '
                 'notexist / err, never panic) and the effect on the destination are compared', 'all of cmd/*.go through the command structs', shrink=False),
    'C15': entry(gens_codec.gen_c15, 160, 3000, 'random bytes, bit flips and truncations of valid encodings, extreme count/step/size fields (0, 2^31-1, 2^31, 2^32-1 and '
                 'values whose product with the record size wraps 32 or 64 bits) through every decoder; files truncated at every structural boundary, files with '
                 'garbage slots (unaligned and random times), headers whose last archive ends beyond 2^32, random and bit-flipped files through Open + fetch / raw dump / '
                 'updates; every operation in a child process with a 3 GiB address-space limit and a timeout; allocation measured with runtime.MemStats',
                 'Header/TimeSeries/Points/ArchiveInfo TakeFrom, Open (readHeader, length check), FetchFromArchive, GetAllRawUnsortedPoints, Update* on decoded garbage', shrink=False, timeout=3000),
    'C06': entry(gens_codec.gen_c06, 200, 3000, 'files written by whispertool or by the real go-whisper (Update, UpdateMany), then read from the same bytes by whispertool, '
                 'by the real go-whisper and by the model (image parser + both reader models), band by band', 'byte layout (header.go, archive_info.go AppendTo), Open, the go-whisper reader (Model/GoWhisperRef.v)', shrink=False),
    'C13': entry(gens_concur.gen_c13, 60, 600, 'every way Open can fail after the descriptor was obtained (short, zero, invalid method / xFilesFactor, truncated inside '
                 'the metadata, the archive list and the data area, bad offset, random bytes) followed by a non-blocking flock probe with the garbage collector off; '
                 'a second Open in a goroutine and in a second process while a handle is held; N writers x M add-one sessions plus readers of a multi-page archive',
                 'openAndLockFile / Open / Create / Close; kernel flock(2) semantics are assumed, not modelled', shrink=False, timeout=3000),
    'C17': entry(gens_concur.gen_c17, 60, 600, 'K goroutines issuing R fetches on one fresh handle (no page cached yet) vs the same fetches alone; sum over files with '
                 'order-sensitive values while one file is held locked; parallel requests to every server endpoint vs the same requests alone; '
                 'the driver is built with the race detector (halt on first report)', 'FetchFromArchive on a shared handle, filebuffer (mutex), sumWhisperFileLocal, server handlers', shrink=False, race=True, timeout=3000),
}


def extra_nontrivial(res):
    for l in res['impl']:
        if ' series ' in l or ' ok' in l or l.startswith('out ') or l.startswith('sessions ') or l.startswith('confetch ') or l.startswith('lock') or (l.startswith('enc ') and l != 'enc err'):
            return True
    return False


def trusted_base(pid):
    return list(BASE_TRUSTED)


def assumptions(pid):
    return list(COMMON_ASSUMPTIONS)


def corpus_cases(pid):
    """Minimized past failures and finding witnesses run first."""
    out = []
    for path in sorted(glob.glob('%s/corpus/%s/*.case' % (V, pid))):
        lines = [l.rstrip('\n') for l in open(path) if l.strip() and not l.startswith('#') and not l.startswith('case ')]
        out.append({'id': 'corpus-' + os.path.basename(path)[:-5], 'lines': lines, 'tags': {'source': 'corpus'}})
    return out


def classify_known(pid, known, lines, res, diff):
    """Returns the description of the listed known finding this mismatch is an instance of, else None.
    A "finding:" line of KNOWN_FINDINGS.txt names the exact failing observation (impl=, with '_' for
    spaces) of an operation (op=); any other disagreement of the same operation is still a violation."""
    if not diff:
        return None
    impl = str(diff[1]).strip()
    for k in known:
        if k.get('op') and impl.split(' ')[0] == k['op'] and impl == k.get('impl', '').replace('_', ' '):
            m = re.search(r'what=(.*)$', k['_line'])
            return m.group(1) if m else k['_line']
    return None
