"""Orchestration shared by every check: Coq audit, driver/model build, correspondence run,
comparison, shrinking, known findings, evidence."""
import concurrent.futures, fcntl, hashlib, json, os, re, shutil, subprocess, sys, tempfile, time

V = os.path.dirname(os.path.dirname(os.path.abspath(__file__)))
REPO = os.environ.get('WT_REPO', '/repo')
GOENV = dict(os.environ, GOFLAGS='-mod=mod', GOPROXY='off', GOSUMDB='off', GOTOOLCHAIN='local',
             CGO_ENABLED='0')
FORBIDDEN = re.compile(r'\b(Admitted|admit|Axiom|Axioms|Parameter|Parameters|Conjecture|Conjectures|'
                       r'bypass_check|give_up)\b|Unset\s+Guard|Unset\s+Positivity|Unset\s+Universe|'
                       r'Admit\s+Obligations|type-in-type|impredicative-set|native_compute')


class Lock:
    def __init__(self, path):
        self.path = path

    def __enter__(self):
        self.f = open(self.path, 'w')
        fcntl.flock(self.f, fcntl.LOCK_EX)
        return self

    def __exit__(self, *a):
        fcntl.flock(self.f, fcntl.LOCK_UN)
        self.f.close()


def sh(cmd, timeout=3600, env=None, cwd=None, inp=None):
    p = subprocess.run(cmd, shell=isinstance(cmd, str), capture_output=True, text=True,
                       timeout=timeout, env=env, cwd=cwd, input=inp)
    return p.returncode, p.stdout, p.stderr


# ----------------------------------------------------------------------------- Coq side

def strip_comments(src):
    out, depth, i = [], 0, 0
    while i < len(src):
        if src.startswith('(*', i):
            depth += 1; i += 2
        elif src.startswith('*)', i) and depth > 0:
            depth -= 1; i += 2
        else:
            if depth == 0:
                out.append(src[i])
            i += 1
    return ''.join(out)


def audit_sources():
    """Forbidden constructs anywhere in the development; Variable/Hypothesis outside a Section."""
    problems = []
    for root, _d, files in os.walk(V + '/coq/theories'):
        for fn in files:
            if not fn.endswith('.v'):
                continue
            path = os.path.join(root, fn)
            src = strip_comments(open(path).read())
            for m in FORBIDDEN.finditer(src):
                problems.append('%s: forbidden construct %r' % (path, m.group(0)))
            depth = 0
            for sent in re.split(r'\.\s', src):
                s = sent.strip()
                if re.match(r'Section\s+\w+', s):
                    depth += 1
                elif re.match(r'End\s+\w+', s) and depth > 0:
                    depth -= 1
                elif re.match(r'(Variable|Variables|Hypothesis|Hypotheses|Context)\b', s) and depth == 0:
                    problems.append('%s: %s outside a section' % (path, s.split()[0]))
    return problems


STD_AXIOMS_ALLOWED = {
    # standard-library axioms (named in the trusted base) that may appear under theorems
    # which mention Flocq's real-number semantics
    'ClassicalDedekindReals.sig_not_dec', 'ClassicalDedekindReals.sig_forall_dec',
    'FunctionalExtensionality.functional_extensionality_dep', 'Classical_Prop.classic',
}


def coq_build(tier, log):
    """Incremental full .vo build (never -vos) + extraction + model runner."""
    with Lock(V + '/coq/.lock'):
        rc, out, err = sh([V + '/bin/build-model'], timeout=3400)
    log['coq_build_rc'] = rc
    if rc != 0:
        log['coq_build_output'] = (out + err)[-4000:]
    return rc == 0


def props_check(pid, log):
    """Compiles Props/<pid>.v afresh, returns (theorems, {theorem: assumptions}, problems)."""
    path = '%s/coq/theories/Props/%s.v' % (V, pid)
    problems = []
    if not os.path.exists(path):
        return [], {}, ['missing %s' % path]
    src = strip_comments(open(path).read())
    theorems = re.findall(r'\bTheorem\s+(\w+)', src)
    printed = re.findall(r'Print\s+Assumptions\s+(\w+)', src)
    for t in theorems:
        if t not in printed:
            problems.append('theorem %s has no Print Assumptions' % t)
    with Lock(V + '/coq/.lock'):
        rc, out, err = sh(['coqc', '-Q', V + '/coq/theories', 'WT', path], timeout=1200)
    if rc != 0:
        problems.append('coqc failed on Props/%s.v: %s' % (pid, (out + err)[-1500:]))
        return theorems, {}, problems
    # split the output at the markers that start each Print Assumptions answer
    chunks = re.split(r'(?m)^(?=Closed under the global context|Axioms:|Section Variables:|Fetching opaque)', out)
    chunks = [c.strip() for c in chunks if c.strip()]
    assumptions = {}
    if len(chunks) != len(printed):
        problems.append('cannot match Print Assumptions output (%d answers for %d commands)' % (len(chunks), len(printed)))
    else:
        for t, c in zip(printed, chunks):
            assumptions[t] = c
            if c.startswith('Closed under the global context'):
                continue
            names = re.findall(r'(?m)^\s*([A-Za-z_][\w.]*)\s*:', c)
            bad = [n for n in names if n not in STD_AXIOMS_ALLOWED and n != 'Axioms']
            if bad or not names:
                problems.append('theorem %s depends on %s' % (t, bad or c[:200]))
    return theorems, assumptions, problems


TIE_NEEDS = {
    # which theorems of the tie by regeneration (coq/theories/Tie) a property's model functions rest on
    'C01': ['tie_floorMod', 'tie_Timestamp_Sub', 'tie_pointIndex', 'tie_intervalForWrite'],
    'C02': ['tie_constants', 'tie_floorMod', 'tie_intervalForWrite'],
    'C03': ['tie_Timestamp_Add', 'tie_Timestamp_Sub', 'tie_MaxRetention', 'tie_intervalForWrite'],
    'C04': ['tie_constants', 'tie_Timestamp_Add', 'tie_Timestamp_Sub', 'tie_MaxRetention', 'tie_floorMod', 'tie_interval'],
    'C06': ['tie_constants', 'tie_pointIndex', 'tie_pointOffsetAt', 'tie_Header_Size', 'tie_ExpectedFileSize'],
    'C07': ['tie_MaxRetention', 'tie_validate', 'tie_fillOffset'],
    'C15': ['tie_ExpectedFileSize'],
    'C19': ['tie_constants'],
    'C20': ['tie_Timestamp_Add', 'tie_Timestamp_Truncate'],
}


def tie_check(pid, log):
    """-> (theorems needed, {theorem: Print Assumptions answer}, problems): the state of the tie by
    regeneration for this property, as bin/build-tie (run by bin/build-model) left it."""
    need = TIE_NEEDS.get(pid, [])
    if not need:
        return [], {}, []
    try:
        st = json.load(open(V + '/coq/.tie.status.%s.json' % hashlib.sha256(REPO.encode()).hexdigest()[:8]))
    except Exception as ex:
        return need, {}, ['tie by regeneration: no status (%s)' % ex]
    if 'error' in st:
        return need, {}, ['tie by regeneration: ' + st['error']]
    log['tie_generated_from'] = st.get('generated_from')
    log['tie_not_translated'] = st.get('not_translated')
    problems, ass = [], {}
    for base in ('GoKernel', 'TieBase'):
        if not st['theorems'].get(base, {}).get('ok'):
            problems.append('tie by regeneration: %s.v does not compile: %s' % (base, st['theorems'].get(base, {}).get('output', '')[-600:]))
    for t in need:
        r = st['theorems'].get(t, {})
        if r.get('ok'):
            ass[t] = r.get('output', '')
        else:
            problems.append('tie by regeneration: theorem %s (the hand-written model equals the translation of the '
                            'current Go source, coq/theories/Tie/%s.v against coq/theories/Gen/GoKernel.v) no longer checks: %s'
                            % (t, t, r.get('output', '')[-600:]))
    return need, ass, problems


def coqchk(pid, log):
    """Thorough tier: clean rebuild in a scratch copy and independent re-check with coqchk."""
    tmp = tempfile.mkdtemp(prefix='wtchk')
    try:
        shutil.copytree(V + '/coq/theories', tmp + '/theories')
        shutil.copy(V + '/coq/_CoqProject', tmp + '/_CoqProject')
        for root, _d, files in os.walk(tmp):
            for fn in files:
                if not fn.endswith('.v') and fn != '_CoqProject':
                    os.remove(os.path.join(root, fn))
        rc, out, err = sh('coq_makefile -f _CoqProject -o Makefile >/dev/null && make -j16', cwd=tmp, timeout=3400)
        log['clean_build_rc'] = rc
        if rc != 0:
            return False, (out + err)[-3000:]
        rc, out, err = sh(['coqchk', '-silent', '-o', '-Q', tmp + '/theories', 'WT', 'WT.Props.' + pid], timeout=7000)
        log['coqchk_rc'] = rc
        log['coqchk_output'] = (out + err)[-3000:]
        return rc == 0, out + err
    finally:
        shutil.rmtree(tmp, ignore_errors=True)


# ----------------------------------------------------------------------------- Go side

def build_driver(work, log, race=False):
    """Builds the driver against /repo's current working tree (tag verif); with the race
    detector for the concurrency property."""
    with Lock(V + '/harness/.lock'):
        tmp = V + '/harness/go.sum.tmp%d' % os.getpid()
        shutil.copy(REPO + '/go.sum', tmp)
        os.replace(tmp, V + '/harness/go.sum')
        extra = []
        if REPO != '/repo':
            # development aid (bin/try-seeded): build against a scratch worktree named by WT_REPO;
            # the registered commands never set it and always build against /repo's working tree
            mod = open(V + '/harness/go.mod').read().replace('=> /repo', '=> ' + REPO)
            open(work + '/alt.mod', 'w').write(mod)
            shutil.copy(REPO + '/go.sum', work + '/alt.sum')
            extra = ['-modfile=' + work + '/alt.mod']
        cmd = ['go', 'build'] + extra + ['-tags', 'verif', '-o', work + '/wtdriver', './cmd/wtdriver']
        env = GOENV
        if race:
            cmd = ['go', 'build'] + extra + ['-race', '-tags', 'verif', '-o', work + '/wtdriver', './cmd/wtdriver']
            env = dict(GOENV, CGO_ENABLED='1')
        rc, out, err = sh(cmd, env=env, cwd=V + '/harness', timeout=1200)
        if rc == 0:
            # the command-line program itself (cmd/whispertool/main.go), for the operations that run it as a process
            rc, out, err = sh(['go', 'build'] + extra + ['-o', work + '/whispertool', 'github.com/hnakamur/whispertool/cmd/whispertool'],
                              env=GOENV, cwd=V + '/harness', timeout=1200)
    if rc != 0:
        log['driver_build_output'] = (out + err)[-4000:]
    return rc == 0


def scratch_base():
    """The directory the scratch directory of a run is made in: the usual temporary directory if every directory on
    the way to it can be searched by other users (some scenarios run a command as uid 65534, which has to reach the
    files of its case), else the first of /tmp, /var/tmp, /dev/shm with that quality, else the usual one."""
    def searchable(d):
        d = os.path.realpath(d)
        while True:
            try:
                if os.stat(d).st_mode & 0o001 == 0:
                    return False
            except OSError:
                return False
            if d == '/':
                return True
            d = os.path.dirname(d)
    for d in [tempfile.gettempdir(), '/tmp', '/var/tmp', '/dev/shm']:
        if os.path.isdir(d) and os.access(d, os.W_OK) and searchable(d):
            return d
    return tempfile.gettempdir()


def split_stream(text):
    """-> list of (case_id, resolved_lines, obs_lines) in order."""
    cases, cur = [], None
    for line in text.splitlines():
        if line.startswith('> case '):
            cur = [line[7:].strip(), [], []]
            cases.append(cur)
        elif cur is None:
            continue
        elif line.startswith('> '):
            cur[1].append(line[2:])
        elif line.startswith('< '):
            cur[2].append(line[2:])
    return cases


def run_shard(args):
    work, idx, text, timeout = args
    cf = '%s/shard%d.case' % (work, idx)
    open(cf, 'w').write(text)
    t0 = time.time()
    env = dict(os.environ, TZ='Asia/Tokyo', TMPDIR=work, GORACE='halt_on_error=1 exitcode=66')
    rc, out, err = sh([work + '/wtdriver', cf], timeout=timeout, env=env)
    t1 = time.time()
    if rc != 0 and 'harnessError' in err:
        return {'error': 'driver rc=%d: %s' % (rc, err[-2000:]), 'impl': [], 'model': []}
    if rc != 0:
        # the process died (a panic in a goroutine the driver cannot recover, a fatal runtime error):
        # run the cases one per process so that the crash becomes an observation of its case
        out = ''
        chunks = [c for c in re.split(r'(?m)^(?=case )', text) if c.strip()]
        for j, chunk in enumerate(chunks):
            cj = '%s/shard%d_%d.case' % (work, idx, j)
            open(cj, 'w').write(chunk)
            try:
                rc2, o2, e2 = sh([work + '/wtdriver', cj], timeout=300, env=dict(env, WTDRIVER_FLUSH='1'))
            except subprocess.TimeoutExpired as ex:
                rc2, o2, e2 = -9, (ex.stdout or b'').decode() if isinstance(ex.stdout, bytes) else (ex.stdout or ''), 'timeout'
            if 'harnessError' in e2:
                return {'error': 'driver: %s' % e2[-2000:], 'impl': [], 'model': []}
            if rc2 != 0:
                why = 'timeout' if rc2 == -9 else ('DATA-RACE' if rc2 == 66 else (re.findall(r'(?m)^(panic: .*|fatal error: .*)$', e2) or ['rc=%d' % rc2])[0])
                o2 = o2 + '< PROCESS-CRASHED %s\n' % why.replace(' ', '_')[:200]
            out += o2
    impl = split_stream(out)
    resolved = []
    for cid, res, _obs in impl:
        resolved.append('case ' + cid)
        resolved += res
    rf = '%s/shard%d.resolved' % (work, idx)
    open(rf, 'w').write('\n'.join(resolved) + '\n')
    # extracted list functions are not tail recursive: large archives need a deep stack
    # (and a large minor heap: every minor collection scans the whole stack, which makes deep recursions quadratic)
    rc, out2, err2 = sh(['bash', '-c', 'ulimit -s $(ulimit -Hs) 2>/dev/null; exec "$0" "$1"', V + '/ocaml/_build/wtmodel', rf], timeout=timeout,
                        env=dict(os.environ, OCAMLRUNPARAM='s=16M'))
    t2 = time.time()
    if rc != 0:
        return {'error': 'model rc=%d: %s' % (rc, err2[-2000:]), 'impl': impl, 'model': []}
    return {'impl': impl, 'model': split_stream(out2), 't_impl': t1 - t0, 't_model': t2 - t1}


def run_cases(work, cases, shards=16, timeout=1800):
    """Runs implementation and model on the cases; returns per-case results in order."""
    shards = max(1, min(shards, len(cases)))
    parts = [[] for _ in range(shards)]
    for i, c in enumerate(cases):
        parts[i % shards].append(c)
    jobs = []
    for i, part in enumerate(parts):
        text = ''.join('case %s\n%s\n' % (c['id'], '\n'.join(c['lines'])) for c in part)
        jobs.append((work, i, text, timeout))
    results = {}
    errors = []
    t_impl = t_model = 0.0
    with concurrent.futures.ThreadPoolExecutor(max_workers=shards) as ex:
        for r in ex.map(run_shard, jobs):
            if 'error' in r:
                errors.append(r['error'])
            t_impl += r.get('t_impl', 0); t_model += r.get('t_model', 0)
            model = {cid: (res, obs) for cid, res, obs in r['model']}
            for cid, res, obs in r['impl']:
                results[cid] = {'resolved': res, 'impl': obs, 'model': model.get(cid, (None, None))[1]}
    return results, errors, {'t_impl': t_impl, 't_model': t_model}


def run_single(work, lines, cid='replay', timeout=600):
    r = run_shard((work, 999, 'case %s\n%s\n' % (cid, '\n'.join(lines)), timeout))
    if 'error' in r or not r['impl']:
        return None
    model = {c: o for c, _r, o in r['model']}
    c, res, obs = r['impl'][0]
    return {'resolved': res, 'impl': obs, 'model': model.get(c)}


def differs(res, ignore=None):
    a, b = res['impl'], res['model']
    if b is None or len(a) != len(b):
        return True
    for x, y in zip(a, b):
        if x != y and not (ignore and ignore(x, y)):
            return True
    return False


def first_diff(res, ignore=None):
    a, b = res['impl'], res['model'] or []
    for i, (x, y) in enumerate(zip(a, b)):
        if x != y and not (ignore and ignore(x, y)):
            return i, x, y
    if len(a) != len(b):
        i = min(len(a), len(b))
        return i, (a[i] if i < len(a) else '<missing>'), (b[i] if i < len(b) else '<missing>')
    return None


def shrink(work, lines, ignore=None, budget=60):
    """Greedy delta-debugging over operation lines (the first line, which creates the file,
    is kept); only meaningful for cases with explicit clocks."""
    cur = list(lines)
    tries = 0
    chunk = max(1, (len(cur) - 1) // 2)
    t_end = time.time() + 180          # (a case over a multi-million-slot archive takes tens of seconds per try)

    def signature(r):
        # a shorter history is kept only if it disagrees in the same way: the same operation on both
        # sides (removing lines can create histories the generators never produce -- e.g. operations
        # on a handle whose Open failed -- whose disagreement would be about something else)
        d = first_diff(r, ignore)
        if d is None:
            return None
        return (str(d[1]).split(' ')[0], str(d[2]).split(' ')[0], 'nofile' in str(d[1]) or 'nofile' in str(d[2]))
    r0 = run_single(work, cur)
    want = signature(r0) if r0 is not None else None
    while chunk >= 1 and tries < budget and time.time() < t_end:
        i = 1
        progressed = False
        while i < len(cur) and tries < budget and time.time() < t_end:
            cand = cur[:i] + cur[i + chunk:]
            tries += 1
            r = run_single(work, cand)
            if r is not None and differs(r, ignore) and (want is None or signature(r) == want):
                cur = cand
                progressed = True
            else:
                i += chunk
        if not progressed:
            chunk //= 2
    return cur


# ----------------------------------------------------------------------------- findings

def load_known_findings():
    out = []
    path = V + '/KNOWN_FINDINGS.txt'
    if not os.path.exists(path):
        return out
    for line in open(path):
        line = line.strip()
        if line.startswith('finding:'):
            kv = dict(re.findall(r'(\w+)=(\S+)', line))
            kv['_line'] = line
            out.append(kv)
    return out


def case_hash(lines):
    return hashlib.sha256('\n'.join(lines).encode()).hexdigest()[:16]


def write_replay(pid, seed, n, payload):
    os.makedirs(V + '/replays', exist_ok=True)
    path = '%s/replays/%s-%s-%d.case' % (V, pid, seed, n)
    with open(path, 'w') as f:
        f.write(payload)
    return path


def format_replay(pid, lines, res, note=''):
    out = ['# property %s' % pid]
    if note:
        out += ['# ' + l for l in note.splitlines()]
    out += ['case replay'] + list(lines)
    if res is not None:
        def clip(ls):
            ls = list(ls)
            return ls if len(ls) <= 400 else ls[:200] + ['... %d observations omitted (re-run the case to see them) ...' % (len(ls) - 400)] + ls[-200:]
        out.append('# --- implementation observations')
        out += ['#I ' + l for l in clip(res['impl'])]
        out.append('# --- model observations')
        out += ['#M ' + l for l in clip(res['model'] or [])]
    return '\n'.join(out) + '\n'
