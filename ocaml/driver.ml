(* wtmodel: reads the resolved operations of a case file (one per line, as echoed by
   wtdriver) and prints the observations the model predicts, one line per operation. *)
open Wtmodel
open Zutil

let handlers : (string, string list -> unit) Hashtbl.t = Hashtbl.create 64
let register name f = Hashtbl.replace handlers name f
let obs fmt = Printf.printf ("< " ^^ fmt ^^ "\n")

(* per-case state *)
let files : (string, handle option) Hashtbl.t = Hashtbl.create 8
let snaps : (string, (arc list * bool) option) Hashtbl.t = Hashtbl.create 8
let proc_mode = ref false        (* the current operation carries proc=1: the command ran as a process *)
let clock : z ref = ref Z0        (* whispertool.Now as replaced by setclock *)
let clock_step : z ref = ref Z0   (* each call that reads the clock reads it once; the next call sees clock + step *)
let tick () = clock := Z.add !clock !clock_step
let reset_case () = Hashtbl.reset files; Hashtbl.reset snaps; clock := Z0; clock_step := Z0
let get_file name = try Hashtbl.find files name with Not_found -> None
let set_file name h = Hashtbl.replace files name h
let take_snap name = match (try Hashtbl.find files name with Not_found -> None) with
  | Some h -> Hashtbl.replace snaps name (Some (h.hd_disk, h.hd_hdr_on_disk))
  | None -> Hashtbl.replace snaps name None
let case_hooks : (unit -> unit) list ref = ref []

let zi s = z_of_dec s

let rec parse_pairs k toks = if k = 0 then ([], toks) else
  match toks with a :: b :: r -> let (l, rest) = parse_pairs (k - 1) r in ((zi a, zi b) :: l, rest)
  | _ -> failwith "layout"
let parse_layout toks = match toks with
  | k :: rest -> parse_pairs (int_of_string k) rest
  | [] -> failwith "layout"

let show_fetch r = match r with
  | FErrInterval -> "errinterval"
  | FErrArchive -> "errarchive"
  | FNone -> "none"
  | FPanic -> "panic"
  | FSeries s ->
    let vs = s.s_vals in
    let ts = series_times s in
    Printf.sprintf "series %s %s %s %d [%s] [%s]" (dec_of_z s.s_from) (dec_of_z s.s_until)
      (dec_of_z s.s_step) (List.length vs) (String.concat " " (List.map show_val vs))
      (String.concat " " (List.map dec_of_z ts))

let show_uout = function OutErr -> "err" | OutPanic -> "panic" | OutOk -> "ok"

let rec parse_points toks = match toks with
  | t :: v :: r -> { p_time = zi t; p_val = z_of_hex v } :: parse_points r
  | _ -> []

(* directory links of the case (dirlink TARGET LINK) and the file a name denotes for the operating system:
   the extracted [phys_name] (Model/Path.v) -- links first, then ".." *)
let dirlinks : (string, string) Hashtbl.t = Hashtbl.create 4
let () = case_hooks := (fun () -> Hashtbl.reset dirlinks) :: !case_hooks
let with_file op name f = match get_file name with
  | None -> obs "%s nofile" op
  | Some h -> f h

let () =
  register "create" (fun tk -> match tk with
    | _ :: name :: rest ->
      let (l, rest) = parse_layout rest in
      (match rest with
       | ["m"; m; "x"; x] ->
         (match create (zi m) (z_of_hex x) l with
          | None -> set_file name None; obs "create err"
          | Some h -> set_file name (Some h); take_snap name; obs "create ok")
       | _ -> failwith "create")
    | _ -> failwith "create");
  register "createshared" (fun tk -> match tk with
    | _ :: a :: b :: rest ->
      let (l, rest) = parse_layout rest in
      (match rest with
       | ["m"; m; "x"; x] ->
         (match create (zi m) (z_of_hex x) l with
          | None -> set_file a None; set_file b None; obs "createshared err"
          | Some h -> set_file a (Some h); set_file b (Some h); take_snap a; take_snap b; obs "createshared ok")
       | _ -> failwith "createshared")
    | _ -> failwith "createshared");
  register "setmaxret" (fun tk -> match tk with
    | [_; name; v] -> with_file "setmaxret" name (fun h -> set_file name (Some { h with hd_maxret = zi v }); obs "setmaxret ok")
    | _ -> failwith "setmaxret");
  register "setclock" (fun tk -> match tk with
    | [_; t] -> clock := zi t; clock_step := Z0; obs "setclock ok"
    | _ -> failwith "setclock");
  register "wfetchtick" (fun tk -> match tk with
    | _ :: name :: _ -> with_file "wfetchtick" name (fun _ -> obs "wfetchtick consistent")
    | _ -> failwith "wfetchtick");
  register "wupd" (fun tk -> match tk with
    | [_; name; t; v] -> with_file "wupd" name (fun h ->
        let (h', o) = w_update flocq_fops !clock h (zi t) (z_of_hex v) in
        tick (); set_file name (Some h'); obs "wupd %s" (show_uout o))
    | _ -> failwith "wupd");
  register "wmany" (fun tk -> match tk with
    | _ :: name :: _n :: rest -> with_file "wmany" name (fun h ->
        let (h', o) = w_update_many flocq_fops !clock h (parse_points rest) in
        tick (); set_file name (Some h'); obs "wmany %s" (show_uout o))
    | _ -> failwith "wmany");
  register "wfetch" (fun tk -> match tk with
    | [_; name; f; u] -> with_file "wfetch" name (fun h -> let r = w_fetch !clock h (zi f) (zi u) in tick (); obs "wfetch %s" (show_fetch r))
    | _ -> failwith "wfetch");
  register "upd" (fun tk -> match tk with
    | [_; name; id; t; v; now] -> with_file "upd" name (fun h ->
        let (h', o) = h_update_clock flocq_fops !clock h (zi id) (zi t) (z_of_hex v) (zi now) in
        if now = "0" then tick ();
        set_file name (Some h'); obs "upd %s" (show_uout o))
    | _ -> failwith "upd");
  register "many" (fun tk -> match tk with
    | _ :: name :: id :: now :: _n :: rest -> with_file "many" name (fun h ->
        let (h', o) = h_update_many_clock flocq_fops !clock h (parse_points rest) (zi id) (zi now) in
        if now = "0" then tick ();
        set_file name (Some h'); obs "many %s" (show_uout o))
    | _ -> failwith "many");
  register "fetch" (fun tk -> match tk with
    | [_; name; id; f; u; now] -> with_file "fetch" name (fun h ->
        let r = h_fetch_clock !clock h (zi id) (zi f) (zi u) (zi now) in
        if now = "0" then tick ();
        obs "fetch %s" (show_fetch r))
    | _ -> failwith "fetch");
  register "fetchk" (fun tk -> match tk with
    | [_; name; id; f; u; now] -> with_file "fetchk" name (fun h ->
        match h_fetch h (zi id) (zi f) (zi u) (zi now) with
        | FSeries s ->
          let ts = series_times s in
          let known = List.filter_map (fun (t, v) -> if show_val v = "nan" then None else Some (dec_of_z t ^ ":" ^ show_val v)) (List.combine ts s.s_vals) in
          obs "fetchk %s %s %s %d [%s]" (dec_of_z s.s_from) (dec_of_z s.s_until) (dec_of_z s.s_step) (List.length s.s_vals) (String.concat " " known)
        | _ -> obs "fetchk err")
    | _ -> failwith "fetchk");
  register "dfetch" (fun tk -> match tk with
    | [_; name; id; f; u; now] -> (match get_file name with None -> obs "dfetch openerr" | Some h ->
        match h_dfetch h (zi id) (zi f) (zi u) (zi now) with
        | None -> obs "dfetch openerr"
        | Some r -> obs "dfetch %s" (show_fetch r))
    | _ -> failwith "dfetch");
  register "raw" (fun tk -> match tk with
    | [_; name; id] -> with_file "raw" name (fun h ->
        match h_raw h (zi id) with
        | None -> obs "raw panic"
        | Some ps ->
          let l = List.map (fun p -> (int_of_z p.p_time, show_val p.p_val)) ps in
          let l = List.sort compare l in
          obs "raw [%s]" (String.concat " " (List.map (fun (t, v) -> Printf.sprintf "%d:%s" t v) l)))
    | _ -> failwith "raw");
  register "sync" (fun tk -> match tk with
    | [_; name] -> with_file "sync" name (fun h -> set_file name (Some (sync h)); take_snap name; obs "sync ok")
    | _ -> failwith "sync");
  register "dirlink" (fun tk -> (match tk with [_; target; link] -> Hashtbl.replace dirlinks link target | _ -> ()); obs "dirlink ok");
  register "rawduring" (fun _ -> obs "rawduring boundary");
  register "abortheld" (fun _ -> obs "abortheld released");
  register "syncclosed" (fun tk -> match tk with
    | [_; name] -> with_file "syncclosed" name (fun _ -> obs "syncclosed err")
    | _ -> failwith "syncclosed");
  register "drop" (fun tk -> match tk with
    | [_; name] -> with_file "drop" name (fun _ -> obs "drop ok")
    | _ -> failwith "drop");
  (* a handle forgotten without Close: nothing reaches the file (Handle.v: only sync changes the disk) *)
  register "abandon" (fun tk -> match tk with
    | [_; name] -> with_file "abandon" name (fun _ -> obs "abandon ok")
    | _ -> failwith "abandon");
  register "openro" (fun tk -> match tk with
    | [_; name] -> with_file "openro" name (fun h -> match reopen h with
        | Some h' -> set_file name (Some h'); obs "openro ok"
        | None -> obs "openro err")
    | _ -> failwith "openro");
  (* one slice handed to two batch writes: two batch writes of those points *)
  register "manytwice" (fun tk -> match tk with
    | _ :: name :: id1 :: id2 :: rest ->
      let many = Hashtbl.find handlers "many" in
      many ("many" :: name :: id1 :: rest); many ("many" :: name :: id2 :: rest)
    | _ -> failwith "manytwice");
  register "open" (fun tk -> match tk with
    | [_; name] -> with_file "open" name (fun h -> match reopen h with
        | Some h' -> set_file name (Some h'); obs "open ok"
        | None -> obs "open err")
    | _ -> failwith "open");
  (* disk NAME: is the file on disk what it was at the last snapshot (taken at create, at every
     sync and by snap)?  In the model the disk changes only in Sync (and in commands that Sync). *)
  register "snap" (fun tk -> match tk with
    | [_; name] -> (match get_file name with
        | Some h -> Hashtbl.replace snaps name (Some (h.hd_disk, h.hd_hdr_on_disk)); obs "snap ok"
        | None -> Hashtbl.replace snaps name None; obs "snap ok")
    | _ -> failwith "snap");
  register "disk" (fun tk -> match tk with
    | [_; name] ->
      let cur = match get_file name with Some h -> Some (h.hd_disk, h.hd_hdr_on_disk) | None -> None in
      let old = try Hashtbl.find snaps name with Not_found -> None in
      obs "disk %s" (if cur = old then "same" else "changed")
    | _ -> failwith "disk")

let main () =
  let ic = if Array.length Sys.argv > 1 then open_in Sys.argv.(1) else stdin in
  (try
    while true do
      let line = input_line ic in
      let toks = List.filter (fun s -> s <> "") (String.split_on_char ' ' (String.trim line)) in
      proc_mode := List.mem "proc=1" toks;
      match toks with
      | [] -> ()
      | "case" :: _ -> reset_case (); List.iter (fun f -> f ()) !case_hooks; print_endline ("> " ^ String.trim line)
      | op :: _ ->
        print_endline ("> " ^ String.trim line);
        (match Hashtbl.find_opt handlers op with
         | Some f -> f toks
         | None -> prerr_endline ("wtmodel: unknown op " ^ op); exit 2)
    done
  with End_of_file -> ());
  close_in ic
