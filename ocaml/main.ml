let () = Driver.main ()
