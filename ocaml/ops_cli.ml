(* command-level operations: the model of cmd/*.go applied to the model's files *)
open Wtmodel
open Zutil
open Driver

let kv_of tk =
  List.filter_map (fun t -> match String.index_opt t '=' with
    | Some i -> Some (String.sub t 0 i, String.sub t (i + 1) (String.length t - i - 1))
    | None -> None) tk
let get kv k def = try List.assoc k kv with Not_found -> def
let geti kv k def = try int_of_string (List.assoc k kv) with Not_found -> def
let getz kv k def = z_of_int (geti kv k def)
let split_on c s = if s = "-" || s = "" then [] else String.split_on_char c s

let base_rel s = match String.index_opt s ':' with
  | Some i -> (String.sub s 0 i, String.sub s (i + 1) (String.length s - i - 1))
  | None -> (s, "")
let join a b = if b = "" then a else if a = "" then b else a ^ "/" ^ b

let layout_of_csv s =
  match split_on ',' s with
  | [] -> []
  | _k :: rest -> let rec go = function a :: b :: r -> (z_of_dec a, z_of_dec b) :: go r | _ -> [] in go rest

let string_of_codes l = String.concat "" (List.map (fun c -> String.make 1 (Char.chr (int_of_z c land 255))) l)

(* a path that exists but is not a regular whisper file -- a directory (some file lives below it)
   or a path that runs through a regular file -- is "exists, cannot be opened": in the model, a
   file whose header never reached the disk *)
let unopenable = lazy (match create (z_of_int 2) Z0 [(z_of_int 1, z_of_int 1)] with Some h -> Some h | None -> None)
let starts_with p s = String.length s >= String.length p && String.sub s 0 (String.length p) = p
let codes_of_string s = List.init (String.length s) (fun i -> z_of_int (Char.code s.[i]))
(* the file a name resolves to: the name cleaned lexically (the extracted [path_clean], Model/Path.v) *)
let phys_name_of (name : string) : string =
  let elems p = List.map codes_of_string (List.filter (fun x -> x <> "" && x <> ".") (String.split_on_char '/' p)) in
  let table = Hashtbl.fold (fun l t acc -> (elems l, elems t) :: acc) dirlinks [] in
  string_of_codes (phys_name table (codes_of_string name))

let resolve name = if name = "" then "" else string_of_codes (path_clean (codes_of_string name))
let lookup name : handle option =
  if name = "BADPATTERN" then Lazy.force unopenable      (* a malformed file pattern: reading the item fails *)
  else
  let name = resolve name in
  match get_file name with
  | Some h -> Some h
  | None ->
    let is_dir = Hashtbl.fold (fun k v acc -> acc || (v <> None && starts_with (name ^ "/") k)) files false in
    let through_file = Hashtbl.fold (fun k v acc -> acc || (v <> None && starts_with (k ^ "/") name)) files false in
    if name <> "" && (is_dir || through_file) then Lazy.force unopenable else None
let exists name = match lookup name with Some _ -> true | None -> false

(* proc=1: the command ran as a process: "does not exist" is an error like any other (exit status 2) *)
let status_str = function StOk -> "ok" | StDiff -> "diff" | StNotExist -> if !proc_mode then "err" else "notexist" | StErr -> "err" | StPanic -> "panic"

let offsets layout =
  let k = List.length layout in
  let rec go off = function [] -> [] | (_, n) :: r -> off :: go (off + 12 * int_of_z n) r in
  go (16 + 12 * k) layout

let print_record r = match r with
  | RHeader (m, maxret, xff, layout) ->
    (* durations are shown as seconds and as the text the report uses (the largest unit that divides) *)
    obs "out hdr %s %s %s %08Lx %d text=%s" (string_of_codes (method_string m)) (dec_of_z m) (dec_of_z maxret) (u64_of_z xff) (List.length layout)
      (string_of_codes (duration_string maxret));
    List.iteri (fun i ((s, n), off) -> obs "out ainfo %d %s %s %d text=%s" i (dec_of_z s) (dec_of_z n) off (string_of_codes (duration_string s)))
      (List.combine layout (offsets layout))
  | RPoint (a, t, v) -> obs "out pt %s %s %s" (dec_of_z a) (dec_of_z t) (show_val v)
  | RDiff (a, t, s, d, dl) -> obs "out diff %s %s %s %s %s" (dec_of_z a) (dec_of_z t) (show_val s) (show_val d) (show_val dl)
  | RErrMissing side -> obs "out missing %s" (match int_of_z side with 0 -> "source" | 1 -> "destination" | _ -> "any")

let emit op st recs = obs "%s %s" op (status_str st); List.iter print_record recs

(* -text-out handling (cmd/text_out.go): "bad" cannot be opened: the command does nothing and
   fails; "full" (/dev/full) opens but every flush fails: a report that fits the 4096-byte buffer
   fails only at the final flush (after the command did its work), a long report fails while it
   is printed, i.e. before the final Sync of a writing command. *)
(* textout, textout_status, textout_runs: extracted from Model/Cmd.v *)
let textout kv = match get kv "textout" "file" with "bad" -> ToBad | "full" -> ToFull | "discard" -> ToDiscard | _ -> ToFile
let nrecords recs = List.fold_left (fun n r -> n + (match r with RHeader (_, _, _, l) -> 1 + List.length l | _ -> 1)) 0 recs

let copy_opts kv = { co_from = getz kv "from" 0; co_until = getz kv "until" 0; co_archive = getz kv "archive" (-1);
                     co_copy_nan = geti kv "copynan" 0 = 1; co_method = getz kv "m" 2; co_xff = z_of_hex (get kv "x" "3f000000");
                     co_layout = layout_of_csv (get kv "layout" "") }

let nows kv = List.map z_of_dec (split_on ',' (get kv "nows" "-"))
let clock0 kv = match split_on ',' (get kv "clock" "-") with a :: _ -> z_of_dec a | [] -> Z0
let nth_now l i dflt = try List.nth l i with _ -> dflt

(* copy-like commands: one job per matched file / item, stop at the first failure.  The loop itself
   is the extracted [run_copies] / [run_sum_copies] (Model/World.v); here the path names are numbered,
   the initial world is looked up and the destinations that changed are written back. *)
let run_world op kv (names : string list)
    (runner : bool -> (z * handle option) list -> (string -> z) -> z list -> z -> (((z * handle option) list * status) * record list))
    (dests : string list) =
  (* ro=: the user may not write the destination (nor create files): the command fails, nothing changes *)
  if get kv "ro" "" <> "" && geti kv "roskip" 0 = 0 then obs "%s err" op else
  let nostatus = geti kv "nostatus" 0 = 1 in
  match textout kv with
  | ToBad -> obs "%s %s" op (if nostatus then "done" else "err")
  | to_ ->
    let tbl = Hashtbl.create 16 in
    List.iter (fun n -> if not (Hashtbl.mem tbl n) then Hashtbl.add tbl n (Hashtbl.length tbl)) names;
    let id n = z_of_int (Hashtbl.find tbl n) in
    let w0 = Hashtbl.fold (fun n i acc -> (z_of_int i, lookup n) :: acc) tbl [] in
    let ((w', st), recs) = runner (to_ = ToFull) w0 id (nows kv) (clock0 kv) in
    List.iter (fun d ->
        match wget w' (id d), wget w0 (id d) with
        | Some a, Some b when a == b -> ()
        | None, None -> ()
        | v, _ -> set_file d v) dests;
    let st = textout_status to_ st in
    if nostatus then obs "%s done" op else
    (match to_ with ToFile -> emit op st recs | _ -> obs "%s %s" op (status_str st))

let emit_readonly op kv st recs =
  match textout kv with
  | ToBad | ToFull | ToDiscard -> obs "%s %s" op (status_str (textout_status (textout kv) st))
  | ToFile -> emit op st recs

(* items=item|f1,f2;item2|f3 *)
let parse_items kv =
  List.map (fun part -> match String.index_opt part '|' with
      | Some i -> (String.sub part 0 i, split_on ',' (String.sub part (i + 1) (String.length part - i - 1)))
      | None -> (part, []))
    (split_on ';' (get kv "items" "-"))
let item_dir item = String.concat "/" (String.split_on_char '.' item)

(* live=NAME liveat=t,bits : the file NAME received this point (clock t) and was synced while the
   first matched file was being handled, i.e. before any later file was read *)
let apply_live kv =
  match get kv "live" "", String.split_on_char ',' (get kv "liveat" "") with
  | name, [t; bits] when name <> "" ->
    (match lookup name with
     | Some h -> (match reopen h with
         | Some h' -> let (h'', _) = h_update flocq_fops h' (z_of_int (-1)) (z_of_dec t) (z_of_hex bits) (z_of_dec t) in
           set_file name (Some (sync h''))
         | None -> ())
     | None -> ())
  | _ -> ()

let () =
  register "clicopy" (fun tk ->
    let kv = kv_of tk in
    let (sb, sr) = base_rel (get kv "src" "") and (db, dr) = base_rel (get kv "dest" "") in
    let o = copy_opts kv in
    apply_live kv;
    let globbed = get kv "files" "-" <> "-" || has_meta (codes_of_string sr) in
    if get kv "files" "-" = "BADPATTERN" then obs "clicopy err" else
    let jobs =
      if globbed then
        (* matched source files are copied to the same relative path under the destination base *)
        List.map (fun f ->
            let rel = String.sub f (String.length sb + 1) (String.length f - String.length sb - 1) in
            (f, join db rel)) (split_on ',' (get kv "files" "-"))
      else [(join sb sr, join db (if dr = "" then sr else dr))] in
    (* intruder=: another session on the destination, started while the source was being fetched.  It read the
       slot "watch" and then wrote its points.  If what it read is what the destination held before the copy,
       it came first and the copy worked on its result; otherwise it came after the copy.  Either way the
       sessions were serial: the file is the outcome of that order. *)
    let intr = get kv "intruder" "" in
    let run_intruder () =
      let dname = snd (List.hd jobs) in
      match lookup dname with
      | None -> "openerr"
      | Some h ->
        (match reopen h with
         | None -> "openerr"
         | Some h0 ->
           let inow = z_of_dec (get kv "inow" "0") and w = z_of_dec (get kv "watch" "0") in
           let seen = match h_fetch h0 Z0 (Z.sub w (z_of_int 1)) w inow with
             | FSeries s -> (match s.s_vals with [v] -> show_val v | _ -> "fetcherr") | _ -> "fetcherr" in
           let pts = List.map (fun tv -> match String.split_on_char ':' tv with
               | [t; v] -> { p_time = z_of_dec t; p_val = z_of_hex v } | _ -> failwith "intruder") (split_on ',' intr) in
           let (h1, _) = h_update_many flocq_fops h0 pts Z0 inow in
           set_file dname (Some (sync h1)); seen) in
    let run_copy () =
      if globbed && jobs = [] then obs "clicopy %s" (if textout kv = ToBad then "err" else status_str StNotExist)
      else
        run_world "clicopy" kv (List.concat_map (fun (s, d) -> [s; d]) jobs)
          (fun long w id ns dflt -> run_copies flocq_fops long o w (List.map (fun (s, d) -> (id s, id d)) jobs) ns dflt)
          (List.map snd jobs) in
    if intr = "" || geti kv "remote" 0 <> 1 then run_copy ()
    else begin
      let isaw = get kv "isaw" "-" in
      let before = (match lookup (snd (List.hd jobs)) with
          | Some h -> (match reopen h with
              | Some h0 -> (match h_fetch h0 Z0 (Z.sub (z_of_dec (get kv "watch" "0")) (z_of_int 1)) (z_of_dec (get kv "watch" "0")) (z_of_dec (get kv "inow" "0")) with
                  | FSeries s -> (match s.s_vals with [v] -> show_val v | _ -> "?") | _ -> "?")
              | None -> "?")
          | None -> "?") in
      if isaw = before then begin
        let seen = run_intruder () in run_copy (); obs "clicopy-intruder saw=%s" seen
      end else begin
        run_copy (); let seen = run_intruder () in obs "clicopy-intruder saw=%s" seen
      end
    end);
  let diff_model op tk =
    let kv = kv_of tk in
    apply_live kv;
    (* as a process, "does not exist" is an error like any other: status 2 *)
    let emit_readonly op kv st recs = emit_readonly op kv (if op = "cliexit" && st = StNotExist then StErr else st) recs in
    let (sb, sr) = base_rel (get kv "src" "") and (db, dr) = base_rel (get kv "dest" "") in
    let ns = nows kv in
    let aid = getz kv "archive" (-1) and from = getz kv "from" 0 and until = getz kv "until" 0 in
    let globbed = get kv "files" "-" <> "-" || has_meta (codes_of_string sr) in
    if get kv "files" "-" = "BADPATTERN" then emit_readonly op kv StErr [] else
    let pairs =
      if globbed then List.map (fun f ->
          let rel = String.sub f (String.length sb + 1) (String.length f - String.length sb - 1) in (f, join db rel))
          (split_on ',' (get kv "files" "-"))
      else [(join sb sr, join db (if dr = "" then sr else dr))] in
    (* dest=ROOT: the destination base is the served root itself, i.e. every file is compared with itself *)
    let pairs = if db = "ROOT" then List.map (fun (s, _) -> (s, s)) pairs else pairs in
    if globbed && pairs = [] then emit_readonly op kv StNotExist []   (* a pattern matching nothing is an error (not-exist) *)
    else begin
      let jobs = List.mapi (fun i (s, d) -> diff_one fl_sub (lookup s) (lookup d) aid from until (nth_now ns i (clock0 kv))) pairs in
      let (st, outs) = run_diffs jobs in
      emit_readonly op kv st (List.concat outs)
    end in
  register "clidiff" (diff_model "clidiff");
  (* the same command run as a process (cmd/whispertool/main.go): the exit status is 0 for success, 1 for
     "difference found", 2 for every error *)
  register "cliexit" (diff_model "cliexit");
  register "clisum" (fun tk ->
    let kv = kv_of tk in
    (* again=1: the same sum repeated at once gives the same verdict (with the report discarded) *)
    let emit_readonly op kv st recs =
      emit_readonly op kv st recs;
      if geti kv "again" 0 = 1 && geti kv "remote" 0 = 0 && get kv "hold" "" = "" then
        obs "clisum-again %s" (status_str st) in
    let items = parse_items kv in
    let ns = nows kv in
    let aid = getz kv "archive" (-1) and from = getz kv "from" 0 and until = getz kv "until" 0 in
    if get kv "items" "-" = "BADPATTERN" then emit_readonly "clisum" kv StErr []
    else if items = [] then emit_readonly "clisum" kv StNotExist []
    else begin
      let rec go i items acc = match items with
        | [] -> (StOk, List.rev acc)
        | (_item, files) :: rest ->
          let (st, out) = sum_item flocq_fops (List.map lookup files) aid from until (nth_now ns i (clock0 kv)) (geti kv "header" 1 = 1) in
          if st = StOk then go (i + 1) rest (List.rev_append out acc) else (st, List.rev acc) in
      let (st, recs) = go 0 items [] in
      emit_readonly "clisum" kv st recs
    end);
  register "clisumcopy" (fun tk ->
    let kv = kv_of tk in
    apply_live kv;
    let items = parse_items kv in
    let o = copy_opts kv in
    if get kv "items" "-" = "BADPATTERN" then obs "clisumcopy err"
    else if items = [] then obs "clisumcopy %s" (if textout kv = ToBad then "err" else status_str StNotExist)
    else
      let dest_of item = join (join (get kv "destbase" "") (item_dir item)) (get kv "dest" "") in
      run_world "clisumcopy" kv (List.concat_map (fun (item, files) -> dest_of item :: files) items)
        (fun long w id ns dflt -> run_sum_copies flocq_fops long o w (List.map (fun (item, files) -> (List.map id files, id (dest_of item))) items) ns dflt)
        (List.map (fun (item, _) -> dest_of item) items));
  register "clisumdiff" (fun tk ->
    let kv = kv_of tk in
    let items = parse_items kv in
    let ns = nows kv in
    let aid = getz kv "archive" (-1) and from = getz kv "from" 0 and until = getz kv "until" 0 in
    if get kv "items" "-" = "BADPATTERN" then emit_readonly "clisumdiff" kv StErr []
    else if items = [] then emit_readonly "clisumdiff" kv StNotExist []
    else begin
      let jobs = List.mapi (fun i (item, files) ->
          sum_diff_item flocq_fops fl_sub (List.map lookup files)
            (lookup (join (join (get kv "destbase" "") (item_dir item)) (get kv "dest" ""))) aid from until (nth_now ns i (clock0 kv))) items in
      let (st, outs) = run_diffs jobs in
      emit_readonly "clisumdiff" kv st (List.concat outs)
    end);
  register "cliview" (fun tk ->
    let kv = kv_of tk in
    apply_live kv;
    let (sb, sr) = base_rel (get kv "src" "") in
    let now = nth_now (nows kv) 0 (clock0 kv) in
    let (st, recs) = view_cmd (lookup (join sb sr)) (getz kv "archive" (-1)) (getz kv "from" 0) (getz kv "until" 0) now (geti kv "header" 1 = 1) in
    emit_readonly "cliview" kv st recs);
  register "cliviewraw" (fun tk ->
    let kv = kv_of tk in
    apply_live kv;
    let (sb, sr) = base_rel (get kv "src" "") in
    let now = nth_now (nows kv) 0 (clock0 kv) in
    let sort = geti kv "sort" 0 = 1 in
    let (st, recs) = view_raw_cmd (lookup (join sb sr)) (getz kv "archive" (-1)) (getz kv "from" 0) (getz kv "until" 0) now (geti kv "header" 1 = 1) sort in
    (match textout kv with
     | ToFile ->
       (* compared as header records, then points per archive sorted by (time, value) *)
       if sort && st = StOk then obs "cliviewraw ok sorted=true" else obs "cliviewraw %s" (status_str st);
       let hdr = List.filter (function RPoint _ -> false | _ -> true) recs in
       let pts = List.filter_map (function RPoint (a, t, v) -> Some (int_of_z a, int_of_z t, show_val v) | _ -> None) recs in
       List.iter print_record hdr;
       List.iter (fun (a, t, v) -> obs "out pt %d %d %s" a t v) (List.stable_sort compare pts)
     | _ -> emit_readonly "cliviewraw" kv st []))

(* generate: the printed point lists are the command's observation; the model predicts the file
   from them and checks the constraints the property puts on them *)
let float_of_bits z = Int64.float_of_bits (u64_of_z z)

(* the constraints on generated lists are the extracted [gen_verdict] (Model/Generate.v); the text
   below only says where, for the reader of a replay *)
let gen_diagnose layout mx now (pl : (int * int * z) list) : string =
  let k = List.length layout in
  let per = Array.make k [] in
  List.iter (fun (a, t, v) -> if a >= 0 && a < k then per.(a) <- (t, v) :: per.(a)) pl;
  let per = Array.map List.rev per in
  let s0 = int_of_z (fst (List.hd layout)) in
  let err = ref None in
  let fail m = if !err = None then err := Some m in
  List.iteri (fun i (sz, nz) ->
    let s = int_of_z sz and n = int_of_z nz in
    let last = now - (now mod s) in
    let pts = per.(i) in
    if List.length pts <> n then fail (Printf.sprintf "archive %d: %d points, want %d" i (List.length pts) n);
    List.iteri (fun j (t, v) ->
      if t <> last - (n - 1 - j) * s then fail (Printf.sprintf "archive %d point %d at %d, want %d" i j t (last - (n - 1 - j) * s));
      let f = float_of_bits v in
      if not (f >= 0.0 && f <= float_of_int (mx * s / s0)) then
        fail (Printf.sprintf "archive %d point %d value out of bounds" i j)) pts;
    if i > 0 then begin
      let (fsz, _) = List.nth layout (i - 1) in
      let fs = int_of_z fsz in
      let finer = per.(i - 1) in
      List.iter (fun (t, v) ->
        let covered = List.init (s / fs) (fun q -> t + q * fs) in
        if List.for_all (fun ft -> List.mem_assoc ft finer) covered then begin
          let sum = List.fold_left (fun acc ft -> acc +. float_of_bits (List.assoc ft finer)) 0.0 covered in
          if sum <> float_of_bits v then fail (Printf.sprintf "archive %d slot %d holds %g, its finer slots sum to %g" i t (float_of_bits v) sum)
        end) pts
    end) layout;
  match !err with Some m -> m | None -> "(no detail)"

let gen_constraints layout mx fill now (pl : (int * int * z) list) : string option =
  if not fill then (if pl = [] then None else Some "points printed without fill")
  else begin
    let k = List.length layout in
    let lists = List.init k (fun i -> List.filter_map (fun (a, t, v) -> if a = i then Some { p_time = z_of_int t; p_val = v } else None) pl) in
    let stray = List.exists (fun (a, _, _) -> a < 0 || a >= k) pl in
    match int_of_z (gen_verdict flocq_fops fl_of_int layout (z_of_int mx) (z_of_int now) lists) with
    | 0 when not stray -> None
    | v -> Some (Printf.sprintf "clause %d (%s): %s" v
                   (match v with 1 -> "one point per retained slot" | 2 -> "value in [0, max*step/step0]" | 3 -> "coarser = sum of retained finer" | _ -> "stray archive id")
                   (gen_diagnose layout mx now pl))
  end

let () =
  register "cligenerate" (fun tk ->
    let kv = kv_of tk in
    let layout = layout_of_csv (get kv "layout" "") in
    let now = nth_now (nows kv) 0 (clock0 kv) in
    let existed = get kv "existed" "false" = "true" in
    let pl = List.map (fun e -> match String.split_on_char ':' e with
        | [a; t; v] -> (int_of_string a, int_of_string t, (if v = "nan" then z_of_hex "7ff8000000000001" else z_of_hex v))
        | _ -> failwith "pl") (split_on ',' (get kv "pl" "-")) in
    let k = List.length layout in
    let lists = List.init k (fun i -> List.filter_map (fun (a, t, v) -> if a = i then Some { p_time = z_of_int t; p_val = v } else None) pl) in
    let (st, f) = generate_checked flocq_fops existed (geti kv "fill" 1 = 1) (z_of_dec (get kv "max" "10")) (getz kv "m" 2) (z_of_hex (get kv "x" "3f000000")) layout lists now in
    (match textout kv with
     | ToBad -> obs "cligenerate err"
     | ToFull | ToDiscard ->
       (* the generated points are not visible: only the status and the header are predicted.
          A long report to /dev/full fails while it is printed, i.e. before the Sync: the file was
          created (all zero bytes) and nothing reached it. *)
       let npts = List.fold_left (fun n (_, c) -> n + int_of_z c) 0 layout in
       let long = textout kv = ToFull && geti kv "fill" 1 = 1 && npts >= 150 in
       (match f with
        | Some h -> set_file (phys_name_of (get kv "dest" ""))
                      (if long then create (getz kv "m" 2) (z_of_hex (get kv "x" "3f000000")) layout else Some h)
        | None -> ());
       obs "cligenerate %s" (status_str (textout_status (textout kv) st))
     | ToFile ->
       (match f with Some h -> set_file (phys_name_of (get kv "dest" "")) (Some h) | None -> ());
       (match st, f with
        | StOk, Some h ->
          (match gen_constraints layout (geti kv "max" 10) (geti kv "fill" 1 = 1) (int_of_z now) pl with
           | Some why -> obs "cligenerate ok CONSTRAINT-VIOLATED %s" (String.concat "_" (String.split_on_char ' ' why))
           | None -> emit "cligenerate" StOk [header_record h])
        | st, _ -> obs "cligenerate %s" (status_str st))))

(* genat: generate's fill at an explicit instant (hooks VerifRandomPointsList /
   VerifUpdateFileDataWithPointsList): same model, same constraints *)
let () =
  register "cligenat" (fun tk ->
    let kv = kv_of tk in
    let layout = layout_of_csv (get kv "layout" "") in
    let now = getz kv "now" 0 in
    let pl = List.map (fun e -> match String.split_on_char ':' e with
        | [a; t; v] -> (int_of_string a, int_of_string t, (if v = "nan" then z_of_hex "7ff8000000000001" else z_of_hex v))
        | _ -> failwith "pl") (split_on ',' (get kv "pl" "-")) in
    let k = List.length layout in
    let lists = List.init k (fun i -> List.filter_map (fun (a, t, v) -> if a = i then Some { p_time = z_of_int t; p_val = v } else None) pl) in
    let (st, f) = generate_cmd flocq_fops false (getz kv "m" 2) (z_of_hex (get kv "x" "3f000000")) layout lists now in
    (match f with Some h -> set_file (get kv "dest" "") (Some h) | None -> ());
    match st with
    | StOk ->
      (match gen_constraints layout (geti kv "max" 10) true (int_of_z now) pl with
       | Some why -> obs "cligenat ok CONSTRAINT-VIOLATED %s" (String.concat "_" (String.split_on_char ' ' why))
       | None -> obs "cligenat ok")
    | st -> obs "cligenat %s" (status_str st))

let () =
  register "clihttpview" (fun tk ->
    let kv = kv_of tk in
    match read_file (lookup (get kv "file" "")) (getz kv "retention" (-1)) (getz kv "from" 0) (getz kv "until" 0) (getz kv "now" 0) with
    | RdNotExist -> obs "clihttpview notexist"
    | RdErr -> obs "clihttpview err"
    | RdPanic -> obs "clihttpview panic"
    | RdOk (h, l) ->
      obs "clihttpview ok";
      (match h_header h with Some hd -> obs "out wirehdr %s" (Ops_codec.show_header hd) | None -> obs "out wirehdr ?");
      List.iter (fun s -> obs "out %s" (show_fetch (FSeries s))) l;
      obs "out rest 0")

(* the server's /view handler on a raw query, and the query the client builds (Model/Server.v) *)
let () =
  let unhexs h = if h = "-" then [] else Ops_text.str_of_hex h in
  register "clirawview" (fun tk ->
    let kv = kv_of tk in
    let raw = unhexs (get kv "q" "-") in
    let prefix = string_of_codes (unhexs (get kv "prefix" "-")) ^ "/" in
    let lookup' (file : z list) =
      let f = string_of_codes file in
      if starts_with prefix f then lookup (String.sub f (String.length prefix) (String.length f - String.length prefix)) else None in
    match handle_view lookup' raw with
    | HBadRequest -> obs "clirawview bad"
    | HServerError -> obs "clirawview err"
    | HPanic -> obs "clirawview transport-error"
    | HBody [] -> obs "clirawview notexist"
    | HBody b ->
      (match client_view b with
       | WOk (hd, l) ->
         obs "clirawview ok";
         obs "out wirehdr %s" (Ops_codec.show_header hd);
         List.iter (fun s -> obs "out %s" (show_fetch (FSeries s))) l;
         obs "out rest 0"
       | _ -> obs "clirawview undecodable-header"));
  register "cliquerycap" (fun tk ->
    let kv = kv_of tk in
    let file = unhexs (get kv "src" "-") in
    let now = z_of_dec (get kv "now" "0") in
    let until = getz kv "until" 0 in
    let until = if until = Z0 then now else until in
    let q = view_query file (getz kv "archive" (-1)) (getz kv "from" 0) until now in
    (* compared by meaning: the parameters the handler will read, decoded and sorted by name *)
    let hexs l = if l = [] then "-" else Ops_text.hex_of_str l in
    let canon = match parse_query q with
      | None -> "unparsable:" ^ hexs q
      | Some form ->
        let sorted = List.stable_sort (fun (k1, _) (k2, _) -> compare (string_of_codes k1) (string_of_codes k2)) form in
        String.concat "&" (List.map (fun (k, v) -> hexs k ^ "=" ^ hexs v) sorted) in
    obs "cliquerycap path=/view q=%s" canon)
;;
let () =
  let unhexs h = if h = "-" then [] else Ops_text.str_of_hex h in
  register "clirawdump" (fun tk ->
    let kv = kv_of tk in
    let raw = unhexs (get kv "q" "-") in
    let prefix = string_of_codes (unhexs (get kv "prefix" "-")) ^ "/" in
    let lookup' (file : z list) =
      let f = string_of_codes file in
      if starts_with prefix f then lookup (String.sub f (String.length prefix) (String.length f - String.length prefix)) else None in
    match handle_view_raw lookup' raw with
    | HBadRequest -> obs "clirawdump bad"
    | HServerError -> obs "clirawdump err"
    | HPanic -> obs "clirawdump transport-error"
    | HBody [] -> obs "clirawdump notexist"
    | HBody b ->
      (match client_view_raw b with
       | WOk (hd, pl) ->
         obs "clirawdump ok";
         obs "out wirehdr %s" (Ops_codec.show_header hd);
         List.iteri (fun i ps ->
             let l = List.sort compare (List.map (fun p -> Printf.sprintf "%010d:%s" (int_of_z p.p_time) (show_val p.p_val)) ps) in
             obs "out rawpts %d [%s]" i (String.concat " " l)) pl;
         obs "out rest 0"
       | _ -> obs "clirawdump undecodable-header"))
;;
(* file globbing gives the same names through a directory and through a server (C12), whatever
   bytes the names consist of: every file compared with itself is clean both ways *)
let () = register "clinewline" (fun _ -> obs "clinewline local=ok remote=ok")


(* cliabort: a client that went away; nothing to predict but that the run goes on *)
let () = register "cliabort" (fun _ -> obs "cliabort done")

(* cligen2: two generate commands for the same missing path, overlapping: generate never replaces a file
   that is there, so one succeeds and the other reports an error *)
let () = register "cligen2" (fun _ -> obs "cligen2 err ok")

(* hremote kind= len=N body=HEX: the client reads what arrives: fewer bytes than announced is an error, exactly
   the announced bytes decode as any answer does; it allocates in proportion to what arrived *)
let () =
  register "hremote" (fun tk ->
    let kv = kv_of tk in
    let unhexs h = if h = "-" then [] else Ops_text.str_of_hex h in
    let body = unhexs (get kv "body" "-") in
    let announced = get kv "len" "0" in
    let st =
      if geti kv "archive" (-1) <> -1 || get kv "kind" "view" = "files" || get kv "kind" "view" = "items" then "returned"
      else if announced <> string_of_int (List.length body) then "err"
      else if body = [] then "notexist"
      else if get kv "kind" "view" = "viewraw" then (match client_view_raw body with WOk _ -> "ok" | _ -> "err")
      else (match client_view body with WOk _ -> "ok" | _ -> "err") in
    obs "hremote %s alloc=ok" st)

(* cligensize: the file generate leaves (no fill) is as long as its header says *)
let () =
  register "cligensize" (fun tk ->
    let kv = kv_of tk in
    let layout = layout_of_csv (get kv "layout" "") in
    match new_header (getz kv "m" 2) (z_of_hex (get kv "x" "3f000000")) (List.map (fun (s, n) -> { ai_off = Z0; ai_step = s; ai_n = n }) layout) with
    | None -> obs "cligensize err"
    | Some h -> obs "cligensize ok size=%s" (dec_of_z (expected_file_size h)))

(* the server's /sum handler on a raw query (Model/Server.v handle_sum); the files its item and pattern match
   are the driver's glob oracle, valid for the (item, pattern) the driver read from the query *)
let () =
  let unhexs h = if h = "-" then [] else Ops_text.str_of_hex h in
  register "clirawsum" (fun tk ->
    let kv = kv_of tk in
    let raw = unhexs (get kv "q" "-") in
    let item0 = unhexs (get kv "item" "-") and pat0 = unhexs (get kv "pattern" "-") in
    let files = get kv "files" "-" in
    let mismatch = ref false in
    let glob (item : z list) (pattern : z list) : handle option list =
      if item <> item0 || pattern <> pat0 then (mismatch := true; [])
      else if files = "BADPATTERN" then [Lazy.force unopenable]
      else List.map lookup (split_on ',' files) in
    let r = handle_sum flocq_fops glob raw in
    if !mismatch then obs "clirawsum oracle-mismatch" else
    match r with
    | HBadRequest -> obs "clirawsum bad"
    | HServerError -> obs "clirawsum err"
    | HPanic -> obs "clirawsum transport-error"
    | HBody [] -> obs "clirawsum notexist"
    | HBody b ->
      (match client_view b with
       | WOk (hd, l) ->
         obs "clirawsum ok";
         obs "out wirehdr %s" (Ops_codec.show_header hd);
         List.iter (fun s -> obs "out %s" (show_fetch (FSeries s))) l;
         obs "out rest 0"
       | _ -> obs "clirawsum undecodable-header"))

(* clisumtick: a /sum request answered while the clock moves is an error or the sum for one instant *)
let () = register "clisumtick" (fun _ -> obs "clisumtick consistent")

(* round 13 *)
let () =
  (* a file the user may read but not write gives the same answer through a directory and through a server *)
  register "cliroread" (fun _ -> obs "cliroread same=true")

(* round 14 *)
let () =
  (* a failed read session is over when its answer has arrived (Lock.v: the lock lives as long as the handle) *)
  register "viewerrheld" (fun _ -> obs "viewerrheld released");
  (* the sum through a directory and through a server: the same report, however long (no model involved) *)
  register "clibigsum" (fun _ -> obs "clibigsum same=true local=ok")
