(* codec operations: enc KIND fields / dec KIND hex *)
open Wtmodel
open Zutil
open Driver

let bytes_of_hex s =
  if s = "-" then [] else
  List.init (String.length s / 2) (fun i -> z_of_int (int_of_string ("0x" ^ String.sub s (2 * i) 2)))
let hex_of_bytes l =
  if l = [] then "-" else String.concat "" (List.map (fun b -> Printf.sprintf "%02x" (int_of_z b land 255)) l)

let show_res (fields : 'a -> string) (r : 'a res) = match r with
  | Ok (x, rest) -> Printf.sprintf "ok %s rest=%s" (fields x) (hex_of_bytes rest)
  | Want n -> Printf.sprintf "want %s" (dec_of_z n)
  | Err -> "err"

let show_header h =
  Printf.sprintf "%s size=%s maxret=%s" (hex_of_bytes (enc_header h)) (dec_of_z (expected_file_size h)) (dec_of_z h.h_maxret)

let rec ainfos_of = function
  | a :: b :: r -> { ai_off = Z0; ai_step = zi a; ai_n = zi b } :: ainfos_of r
  | _ -> []
let header_of_tokens = function
  | m :: x :: _k :: rest -> new_header (zi m) (z_of_hex x) (ainfos_of rest)
  | _ -> failwith "header tokens"

let decode kind src = match kind with
  | "ts" -> show_res dec_of_z (dec_ts src)
  | "dur" -> show_res dec_of_z (dec_dur src)
  | "val" -> show_res show_bits (dec_val src)
  | "point" -> show_res (fun p -> Printf.sprintf "%s %s" (dec_of_z p.p_time) (show_bits p.p_val)) (dec_point src)
  | "points" -> show_res (fun ps -> String.concat " " (string_of_int (List.length ps) ::
        List.map (fun p -> Printf.sprintf "%s %s" (dec_of_z p.p_time) (show_bits p.p_val)) ps)) (dec_points_msg src)
  | "series" -> show_res (fun s -> String.concat " " (Printf.sprintf "%s %s %s %d" (dec_of_z s.s_from) (dec_of_z s.s_until)
        (dec_of_z s.s_step) (List.length s.s_vals) :: List.map show_bits s.s_vals)) (dec_series src)
  | "ainfo" -> show_res (fun a -> hex_of_bytes (enc_ainfo a)) (dec_ainfo src)
  | "header" -> show_res show_header (dec_header src)
  | _ -> failwith "kind"

let () =
  register "enc" (fun tk -> match tk with
    | [_; "ts"; t] -> obs "enc %s append=ok" (hex_of_bytes (enc_ts (zi t)))
    | [_; "dur"; d] -> obs "enc %s append=ok" (hex_of_bytes (enc_dur (zi d)))
    | [_; "val"; v] -> obs "enc %s append=ok" (hex_of_bytes (enc_val (z_of_hex v)))
    | [_; "point"; t; v] -> obs "enc %s append=ok" (hex_of_bytes (enc_point { p_time = zi t; p_val = z_of_hex v }))
    | _ :: "points" :: _n :: rest -> obs "enc %s append=ok" (hex_of_bytes (enc_points (parse_points rest)))
    | _ :: "series" :: f :: u :: s :: _n :: vs ->
      obs "enc %s append=ok" (hex_of_bytes (enc_series { s_from = zi f; s_until = zi u; s_step = zi s; s_vals = List.map z_of_hex vs }))
    | [_; "ainfo"; s; n] -> obs "enc %s append=ok" (hex_of_bytes (enc_ainfo { ai_off = Z0; ai_step = zi s; ai_n = zi n }))
    | _ :: "header" :: rest ->
      (match header_of_tokens rest with None -> obs "enc err" | Some h -> obs "enc %s append=ok" (show_header h))
    | _ -> failwith "enc");
  register "dec" (fun tk -> match tk with
    | [_; kind; hx] -> obs "dec %s" (decode kind (bytes_of_hex hx))
    | _ -> failwith "dec");
  (* decoders are functions of the bytes: reusing the destination variable changes nothing *)
  register "decreuse" (fun tk -> match tk with
    | [_; kind; h1; h2] -> obs "decreuse first=[%s] second=[%s] firstcopy=same" (decode kind (bytes_of_hex h1)) (decode kind (bytes_of_hex h2))
    | _ -> failwith "decreuse")

(* reuse PRODUCER m x k s n ... | j item ... : acceptance is a function of the steps and point
   counts of the final list alone (Layout.wf_layout_full): the history of the values is nothing *)
let () =
  register "reuse" (fun tk -> match tk with
    | _ :: _prod :: m :: x :: rest ->
      let rec split acc = function "|" :: r -> (List.rev acc, r) | t :: r -> split (t :: acc) r | [] -> failwith "reuse" in
      let (first, recipe) = split [] rest in
      let (l1, _) = parse_layout first in
      let items = match recipe with _j :: its -> its | [] -> [] in
      let final = List.map (fun it ->
          let body = String.sub it 1 (String.length it - 1) in
          if it.[0] = 'o' then (let (s, n) = List.nth l1 (int_of_string body) in (dec_of_z s, dec_of_z n))
          else match String.split_on_char ':' body with [s; n] -> (s, n) | _ -> failwith "reuse item") items in
      let toks = m :: x :: string_of_int (List.length final) :: List.concat_map (fun (s, n) -> [s; n]) final in
      (match header_of_tokens toks with None -> obs "enc err" | Some h -> obs "enc %s" (show_header h))
    | _ -> failwith "reuse")

let () =
  register "hdr" (fun tk -> match tk with
    | [_; name] -> with_file "hdr" name (fun h -> match h_header h with
        | None -> obs "hdr panic" | Some hd -> obs "hdr %s" (show_header hd))
    | _ -> failwith "hdr")

let () =
  register "hdrof" (fun tk -> match tk with
    | [_; name] -> (match get_file name with
        | None -> obs "hdrof openerr"
        | Some h -> (match reopen h with
            | None -> obs "hdrof openerr"
            | Some h' -> (match h_header h' with None -> obs "hdrof panic" | Some hd -> obs "hdrof %s" (show_header hd))))
    | _ -> failwith "hdrof")

(* recreate NAME layout m M x X : Create over an existing file: the length is the new header's *)
let () =
  register "recreate" (fun tk -> match tk with
    | _ :: name :: rest ->
      let (l, rest) = parse_layout rest in
      (match rest with
       | ["m"; m; "x"; x] ->
         (match create (zi m) (z_of_hex x) l with
          | None -> obs "recreate err"
          | Some h ->
            set_file name (Some (sync h));
            (match h_header h with
             | Some hd -> obs "recreate ok size=%s" (dec_of_z (expected_file_size hd))
             | None -> obs "recreate err"))
       | _ -> failwith "recreate")
    | _ -> failwith "recreate")


(* createover NAME layout m M x X : Create (open flag without O_EXCL) over a synced file with the same
   header: the length does not change and the buffer shows what is on disk -- the handle a fresh Open
   would give ([reopen]); nothing reaches the disk before Sync *)
let () =
  register "createover" (fun tk -> match tk with
    | _ :: name :: rest ->
      (match get_file name with
       | Some h -> (match create_over h with
           | Some h' -> set_file name (Some h'); obs "createover ok"
           | None -> obs "createover ok")
       | None ->
         let (l, rest) = parse_layout rest in
         (match rest with
          | ["m"; m; "x"; x] -> (match create (zi m) (z_of_hex x) l with
              | Some h -> set_file name (Some h); obs "createover ok"
              | None -> obs "createover err")
          | _ -> failwith "createover"))
    | _ -> failwith "createover")
