(* exclusive access (C13) and concurrent reads (C17): what the protocol model predicts *)
open Wtmodel
open Zutil
open Driver

let rec nat_of_int n = if n <= 0 then O else S (nat_of_int (n - 1))

let () =
  (* a failed Open leaves the path unlocked (Lock.failed_open_releases); whether Open fails is
     decided by the image model *)
  register "lockfail" (fun tk -> match tk with
    | [_; name] ->
      let ok = (match (try Some (Hashtbl.find Ops_image.raws name) with Not_found -> None) with
          | Some bytes -> (match image_handle bytes with Some _ -> true | None -> false)
          | None -> (match get_file name with Some h -> h.hd_hdr_on_disk | None -> false)) in
      obs "lockfail %s free=true" (if ok then "ok" else "err")
    | _ -> failwith "lockfail");
  (* the second Open waits for the Close of the first (mutual exclusion: Lock.step_excl) *)
  register "lockblock" (fun _ -> obs "lockblock blocked=true acquired=true");
  register "lockproc" (fun _ -> obs "lockproc opened=true waited=true");
  (* n concurrent add-one sessions leave n (Lock.counter_no_lost_update), evaluated by running the
     protocol model on a round-robin schedule; readers see a session boundary *)
  register "sessions" (fun tk -> match tk with
    | [_; name; w; r; _readers; _now] ->
      let n = int_of_string w * int_of_string r in
      let sched = List.concat (List.init (4 * n + 1) (fun _ -> List.init n (fun i -> nat_of_int i))) in
      let final = counter_final (nat_of_int (int_of_string w)) (nat_of_int (int_of_string r)) sched in
      (* the driver's sessions write float64(n) into every slot *)
      let bits = Int64.bits_of_float (float_of_int (int_of_z final)) in
      ignore name;
      obs "sessions final=%016Lx torn=0 failed=0" bits
    | _ -> failwith "sessions");
  (* reads do not change what the buffer shows (FileBuf.read_at_spec), so any interleaving of
     fetches returns what each returns alone *)
  register "confetch" (fun tk -> match tk with
    | _ :: name :: _ -> with_file "confetch" name (fun _ -> obs "confetch differing=0")
    | _ -> failwith "confetch");
  register "conhttp" (fun tk ->
    (* rounds=N: the eight requests that read the file itself (all answered) *)
    if List.exists (fun t -> String.length t > 7 && String.sub t 0 7 = "rounds=") tk
    then obs "conhttp differing=0 answered=8" else obs "conhttp differing=0 answered=14");
  (* a handle whose Open had to wait sees the state of the last Sync from every page
     (Lock.run_serializable: it loads the disk only once it owns the lock); the holder's writes
     are not tracked by the model's file state: the observation is a self-comparison *)
  register "waitopen" (fun _ -> obs "waitopen differing=0");
  (* the lock lives exactly as long as the handle: after Close a new Open succeeds at once, whatever
     child processes were started while the handle was open *)
  register "childhold" (fun tk -> match tk with
    | [_; name] -> (match get_file name with
        | Some h -> (match reopen h with Some _ -> obs "childhold reopen=ok" | None -> obs "childhold openerr")
        | None -> obs "childhold openerr")
    | _ -> failwith "childhold")
;;
let () =
  (* the lock lives exactly as long as a handle (Lock.step_excl: only the owner's Close releases
     it): closing some other, already closed handle again releases nothing *)
  register "dblclose" (fun _ -> obs "dblclose held=true");
  (* what Open, the update and Sync acknowledge on a file that cannot be written is what a later
     handle reads (FileBuf.sync_durable); refusing to open acknowledges nothing *)
  register "unwritable" (fun _ -> obs "unwritable durable=true");
  register "rosync" (fun _ -> obs "rosync durable=true")
;;
let () =
  (* the handle returned by Create holds the lock like any other (Lock.step_excl) *)
  register "lockcreate" (fun _ -> obs "lockcreate blocked=true acquired=true");
  (* a symbolic link is another name of the same file *)
  register "symlink" (fun tk -> match tk with
    | [_; target; link] -> set_file link (get_file target); obs "symlink ok"
    | _ -> failwith "symlink")
;;
let () =
  (* a Create that has to wait for the lock touches nothing before it owns it (Lock.step_excl) *)
  register "recreatewait" (fun _ -> obs "recreatewait intact=true");
  (* the age of a directory is nothing a read depends on *)
  register "olddir" (fun _ -> obs "olddir ok");
  (* two copies into one destination are two sessions, serial whatever their order (Lock.v: C13_no_lost_update);
     each writes the slots in which its source has a value (C08_successful_copy_equalizes): no value is missing *)
  register "clicopy2" (fun _ -> obs "clicopy2 st=ok,ok lost=0");
  register "rmfile" (fun tk -> match tk with
    | [_; name] -> set_file name None; obs "rmfile ok"
    | _ -> failwith "rmfile");
  (* item globbing gives the same names through a directory and through a server (Server.names_roundtrip:
     blanks and tabs are carried by the line protocol) *)
  register "cliwsitem" (fun _ -> obs "cliwsitem local=ok remote=ok")

