(* file images: the reference reader (C06) and hostile bytes (C15) *)
open Wtmodel
open Zutil
open Driver
open Ops_codec

let kvget tk k = List.fold_left (fun acc t ->
    let p = k ^ "=" in
    if String.length t > String.length p && String.sub t 0 (String.length p) = p
    then Some (String.sub t (String.length p) (String.length t - String.length p)) else acc) None tk

(* files whose bytes are given (rawfile): name -> bytes *)
let raws : (string, z list) Hashtbl.t = Hashtbl.create 8
let () = case_hooks := (fun () -> Hashtbl.reset raws) :: !case_hooks

let unsynced_placeholder : handle =
  { hd_method = Z0; hd_xff = Z0; hd_maxret = Z0; hd_arcs = []; hd_disk = []; hd_hdr_on_disk = false }

let () =
  List.iter (fun op -> register op (fun _ -> ())) ["gwcreate"; "gwupd"; "gwmany"; "gwclose"];
  register "clixread" (fun tk -> match tk with
    | _ :: _name :: f :: u :: now :: _ ->
      let bytes = bytes_of_hex (match kvget tk "hex" with Some h -> h | None -> "-") in
      (match image_handle bytes with Some hh -> set_file _name (Some hh) | None -> ());
      (match open_image bytes with
       | None -> obs "wtmeta openerr"; obs "wt openerr"; obs "gwmeta openerr"; obs "gw openerr"
       | Some (h, arcs) ->
         obs "wtmeta %s" (show_header h);
         obs "wt %s" (show_fetch (fetch_from_archive arcs (z_of_int (-1)) (zi f) (zi u) (zi now)));
         obs "gwmeta m=%s maxret=%s xff=%08Lx size=%s [%s]" (dec_of_z h.h_method) (dec_of_z h.h_maxret) (u64_of_z h.h_xff)
           (dec_of_z (expected_file_size h))
           (String.concat ";" (List.map (fun a -> Printf.sprintf "%s,%s" (dec_of_z a.ai_step) (dec_of_z a.ai_n)) h.h_arcs));
         (match gw_fetch arcs h.h_maxret (zi f) (zi u) (zi now) with
          | GwErr -> obs "gw err"
          | GwNone -> obs "gw none"
          | GwSeries s -> obs "gw %s" (show_fetch (FSeries s))))
    | _ -> failwith "clixread");
  register "rawfile" (fun tk -> match tk with
    | [_; name; hx] ->
      let bytes = bytes_of_hex hx in
      Hashtbl.replace raws name bytes;
      (match image_handle bytes with
       | Some h -> set_file name (Some h)
       | None -> set_file name (Some unsynced_placeholder));
      obs "rawfile ok"
    | _ -> failwith "rawfile");
  register "hdec" (fun tk -> match tk with
    | [_; kind; hx] -> obs "hdec %s alloc=ok" (decode kind (bytes_of_hex hx))
    | _ -> failwith "hdec");
  let with_image op name f = match (try Some (Hashtbl.find raws name) with Not_found -> None) with
    | None -> obs "%s openerr alloc=ok" op
    | Some bytes -> (match image_handle bytes with None -> obs "%s openerr alloc=ok" op | Some h -> f h) in
  register "hopen" (fun tk -> match tk with
    | [_; name] -> with_image "hopen" name (fun _ -> obs "hopen ok alloc=ok")
    | _ -> failwith "hopen");
  register "hfetch" (fun tk -> match tk with
    | [_; name; id; f; u; now] -> with_image "hfetch" name (fun h ->
        obs "hfetch %s alloc=ok" (show_fetch (h_fetch h (zi id) (zi f) (zi u) (zi now))))
    | _ -> failwith "hfetch");
  register "hraw" (fun tk -> match tk with
    | [_; name; id] -> with_image "hraw" name (fun h -> match h_raw h (zi id) with
        | None -> obs "hraw panic alloc=ok"
        | Some ps -> obs "hraw ok %d alloc=ok" (List.length ps))
    | _ -> failwith "hraw");
  register "hupd" (fun tk -> match tk with
    | [_; name; id; t; v; now] -> with_image "hupd" name (fun h ->
        let (_, o) = h_update flocq_fops h (zi id) (zi t) (z_of_hex v) (zi now) in obs "hupd %s alloc=ok" (show_uout o))
    | _ -> failwith "hupd");
  register "hmany" (fun tk -> match tk with
    | _ :: name :: id :: now :: _n :: rest -> with_image "hmany" name (fun h ->
        let (_, o) = h_update_many flocq_fops h (parse_points rest) (zi id) (zi now) in obs "hmany %s alloc=ok" (show_uout o))
    | _ -> failwith "hmany")
