(* text syntax operations (C19, C07 entry points) *)
open Wtmodel
open Zutil
open Driver
open Ops_codec

let str_of_hex s = List.map (fun b -> b) (bytes_of_hex s)      (* list of byte codes *)
let hex_of_str l = hex_of_bytes l
let show_ainfos l = String.concat "" (List.map (fun a -> hex_of_bytes (enc_ainfo a)) l)

let () =
  register "pdur" (fun tk -> match tk with
    | [_; s] -> (match parse_duration (str_of_hex s) with None -> obs "pdur err" | Some d -> obs "pdur ok %s" (dec_of_z d))
    | _ -> failwith "pdur");
  register "sdur" (fun tk -> match tk with
    | [_; d] -> obs "sdur %s" (hex_of_str (duration_string (zi d)))
    | _ -> failwith "sdur");
  register "pts" (fun tk -> match tk with
    | [_; s] -> (match parse_timestamp (str_of_hex s) with None -> obs "pts err" | Some t -> obs "pts ok %s" (dec_of_z t))
    | _ -> failwith "pts");
  register "sts" (fun tk -> match tk with
    | [_; t] -> obs "sts %s" (hex_of_str (timestamp_string (zi t)))
    | _ -> failwith "sts");
  register "pinfo" (fun tk -> match tk with
    | [_; s] -> (match parse_archive_info (str_of_hex s) with
        | None -> obs "pinfo err" | Some (st, n) -> obs "pinfo ok %s %s" (dec_of_z st) (dec_of_z n))
    | _ -> failwith "pinfo");
  let plist name = register name (fun tk -> match tk with
    | [_; s] -> (match parse_archive_info_list (str_of_hex s) with
        | None -> obs "%s err" name | Some l -> obs "%s ok %s" name (show_ainfos l))
    | _ -> failwith name) in
  plist "plist"; plist "flaglist";
  register "slist" (fun tk -> match tk with
    | _ :: rest -> let (l, _) = parse_layout rest in obs "slist %s" (hex_of_str (archive_list_string l))
    | _ -> failwith "slist");
  register "pmeth" (fun tk -> match tk with
    | [_; s] -> (match method_of_string (str_of_hex s) with None -> obs "pmeth err" | Some m -> obs "pmeth ok %s" (dec_of_z m))
    | _ -> failwith "pmeth");
  register "smeth" (fun tk -> match tk with
    | [_; m] -> obs "smeth %s" (hex_of_str (method_string (zi m)))
    | _ -> failwith "smeth");
  register "flagmeth" (fun tk -> match tk with
    | [_; s] -> (match flag_method (str_of_hex s) with None -> obs "flagmeth err" | Some m -> obs "flagmeth ok %s" (dec_of_z m))
    | _ -> failwith "flagmeth");
  register "flagts" (fun tk -> match tk with
    | [_; s] -> (match parse_timestamp (str_of_hex s) with None -> obs "flagts err" | Some t -> obs "flagts ok %s" (dec_of_z t))
    | _ -> failwith "flagts");
  register "cliflagxff" (fun tk -> match tk with
    | [_; _s; pf] ->
      let v = String.sub pf 3 (String.length pf - 3) in
      if v = "err" then obs "cliflagxff err"
      else (match fl_flag_xff (z_of_hex v) with
            | None -> obs "cliflagxff err"
            | Some b -> obs "cliflagxff ok %08Lx" (u64_of_z b))
    | _ -> failwith "cliflagxff")

(* net/url (C12): QueryEscape / QueryUnescape / ParseQuery *)
let () =
  register "qesc" (fun tk -> match tk with
    | [_; s] -> obs "qesc %s" (hex_of_str (q_escape (str_of_hex s)))
    | _ -> failwith "qesc");
  register "qunesc" (fun tk -> match tk with
    | [_; s] -> (match q_unescape (str_of_hex s) with None -> obs "qunesc err" | Some v -> obs "qunesc ok %s" (hex_of_str v))
    | _ -> failwith "qunesc");
  register "qparse" (fun tk -> match tk with
    | [_; s] -> (match parse_query (str_of_hex s) with
        | None -> obs "qparse err"
        | Some kvs ->
          (* Values is a map: group by key, keys sorted bytewise, values in order of appearance *)
          let key_str k = String.concat "" (List.map (fun c -> String.make 1 (Char.chr (int_of_z c land 255))) k) in
          let keys = List.sort_uniq compare (List.map (fun (k, _) -> key_str k) kvs) in
          let parts = List.map (fun ks ->
              let vs = List.filter_map (fun (k, v) -> if key_str k = ks then Some (hex_of_str v) else None) kvs in
              let khex = hex_of_str (List.map (fun ch -> z_of_int (Char.code ch)) (List.init (String.length ks) (String.get ks))) in
              khex ^ "=" ^ String.concat "," vs) keys in
          obs "qparse ok %s" (if parts = [] then "-" else String.concat ";" parts))
    | _ -> failwith "qparse")

(* the command line up to Execute (Model/Args.v) *)
let () =
  let hx l = if l = [] then "-" else hex_of_str l in
  let arg_of_hex h = if h = "-" then [] else str_of_hex h in
  let lay = function
    | None -> "none"
    | Some l -> String.concat "," (string_of_int (List.length l) :: List.concat_map (fun a -> [dec_of_z a.ai_step; dec_of_z a.ai_n]) l) in
  let b v = if v then "true" else "false" in
  let x32 z = Printf.sprintf "%08Lx" (u64_of_z z) in
  register "cliargs" (fun tk -> match tk with
    | _ :: sub :: rest ->
      let pf_tok = List.find (fun t -> String.length t >= 3 && String.sub t 0 3 = "pf=") rest in
      let hexargs = List.filter (fun t -> t != pf_tok) rest in
      let pfs = String.split_on_char ',' (String.sub pf_tok 3 (String.length pf_tok - 3)) in
      let args = List.map arg_of_hex hexargs in
      (* the value part of an argument, as the driver took it for strconv.ParseFloat *)
      let args_i = List.map (fun a -> List.map int_of_z a) args in
      let value_of (a : int list) = match a with
        | 45 :: _ -> (let rec after = function [] -> None | 61 :: r -> Some r | _ :: r -> after r in
                      match after a with Some r -> r | None -> a)
        | _ -> a in
      let table = if pfs = ["-"] then [] else List.map2 (fun a pf -> (value_of a, pf)) args_i pfs in
      let parse_f64 (v : z list) = match List.assoc_opt (List.map int_of_z v) table with
        | Some "err" | None -> None
        | Some h -> Some (z_of_hex h) in
      let c = (match sub with
          | "copy" -> CCopy | "diff" -> CDiff | "generate" -> CGenerate | "server" -> CServer | "sum" -> CSum
          | "sum-copy" -> CSumCopy | "sum-diff" -> CSumDiff | "view" -> CView | "view-raw" -> CViewRaw
          | _ -> failwith "cliargs: subcommand") in
      (match parse_command parse_f64 fl_flag_xff c args with
       | PExit2 -> obs "cliargs exit2"
       | PHelp -> obs "cliargs help"
       | PErr (Required f) -> obs "cliargs err required=%s" (String.concat "" (List.map (fun c -> String.make 1 (Char.chr (int_of_z c))) (flag_name f)))
       | PErr DestBaseIsURL -> obs "cliargs err desturl"
       | PErr DestWithMeta -> obs "cliargs err destmeta"
       | PErr FromAfterUntil -> obs "cliargs err fromafteruntil"
       | PRun o ->
         let sb = "sb=" ^ hx o.o_src_base and s = "s=" ^ hx o.o_src and db = "db=" ^ hx o.o_dest_base and d = "d=" ^ hx o.o_dest
         and item = "item=" ^ hx o.o_item and m = "m=" ^ dec_of_z o.o_method and x = "x=" ^ x32 o.o_xff and l = "lay=" ^ lay o.o_layout
         and from = "from=" ^ dec_of_z o.o_from and until = "until=" ^ dec_of_z o.o_until and arch = "arch=" ^ dec_of_z o.o_archive
         and to_ = "to=" ^ hx o.o_textout and cn = "cn=" ^ b o.o_copy_nan and hdr = "hdr=" ^ b o.o_header and sort = "sort=" ^ b o.o_sort
         and perm = "perm=" ^ dec_of_z o.o_perm and mx = "max=" ^ dec_of_z o.o_max and fill = "fill=" ^ b o.o_fill
         and addr = "addr=" ^ hx o.o_addr and base = "base=" ^ hx o.o_base in
         let fields = (match c with
             | CCopy -> [sb; s; db; d; m; x; l; from; until; arch; to_; cn]
             | CDiff -> [sb; s; db; d; arch; to_; from; until]
             | CGenerate -> [d; perm; m; x; l; mx; fill; to_]
             | CServer -> [addr; base]
             | CSum -> [sb; item; s; arch; to_; hdr; from; until]
             | CSumCopy -> [sb; item; s; db; d; m; x; l; from; until; arch; to_]
             | CSumDiff -> [sb; item; s; db; d; arch; to_; from; until]
             | CView -> [sb; s; from; until; arch; to_; hdr]
             | CViewRaw -> [sb; s; from; until; arch; hdr; sort; to_]) in
         obs "cliargs run %s" (String.concat " " fields))
    | _ -> failwith "cliargs")

(* pathclean HEX / pathjoin HEX... : Model/Path.v against path.Clean, filepath.Clean and filepath.Join *)
let () =
  register "pathclean" (fun tk -> match tk with
    | [_; h] -> let c = hex_of_bytes (path_clean (bytes_of_hex h)) in obs "pathclean %s %s" c c
    | _ -> failwith "pathclean");
  register "pathjoin" (fun tk -> match tk with
    | _ :: hs -> obs "pathjoin %s" (hex_of_bytes (path_join (List.map bytes_of_hex hs)))
    | _ -> failwith "pathjoin")

(* tsapi F U S n v.. | F U S n v.. : TimeSeries.EqualTimeRangeAndStep / Equal / DiffPoints /
   DiffPointsExcludeSrcNaN, Points.Equal / Diff (Model/Cmd.v) *)
let () =
  register "tsapi" (fun tk ->
    let rec split acc = function "|" :: r -> (List.rev acc, r) | t :: r -> split (t :: acc) r | [] -> failwith "tsapi" in
    let (l, r) = split [] (List.tl tk) in
    let mk = function
      | f :: u :: st :: _n :: vs -> { s_from = z_of_dec f; s_until = z_of_dec u; s_step = z_of_dec st; s_vals = List.map z_of_hex vs }
      | _ -> failwith "tsapi series" in
    let a = mk l and b = mk r in
    let show (p, q) =
      let f pp = "[" ^ String.concat " " (List.map (fun x -> dec_of_z x.p_time ^ ":" ^ show_val x.p_val) pp) ^ "]" in
      f p ^ "|" ^ f q in
    let pa = series_points a and pb = series_points b in
    obs "tsapi eqrs=%b equal=%b diff=%s diffx=%s peq=%b pdiff=%s" (eq_range_step a b) (series_equal a b)
      (show (diff_points true a b)) (show (diff_points false a b)) (points_equal pa pb) (show (points_diff pa pb)))
