(* text syntax operations (C19, C07 entry points) *)
open Wtmodel
open Zutil
open Driver
open Ops_codec

let str_of_hex s = List.map (fun b -> b) (bytes_of_hex s)      (* list of byte codes *)
let hex_of_str l = hex_of_bytes l
let show_ainfos l = String.concat "" (List.map (fun a -> hex_of_bytes (enc_ainfo a)) l)

let () =
  register "pdur" (fun tk -> match tk with
    | [_; s] -> (match parse_duration (str_of_hex s) with None -> obs "pdur err" | Some d -> obs "pdur ok %s" (dec_of_z d))
    | _ -> failwith "pdur");
  register "sdur" (fun tk -> match tk with
    | [_; d] -> obs "sdur %s" (hex_of_str (duration_string (zi d)))
    | _ -> failwith "sdur");
  register "pts" (fun tk -> match tk with
    | [_; s] -> (match parse_timestamp (str_of_hex s) with None -> obs "pts err" | Some t -> obs "pts ok %s" (dec_of_z t))
    | _ -> failwith "pts");
  register "sts" (fun tk -> match tk with
    | [_; t] -> obs "sts %s" (hex_of_str (timestamp_string (zi t)))
    | _ -> failwith "sts");
  register "pinfo" (fun tk -> match tk with
    | [_; s] -> (match parse_archive_info (str_of_hex s) with
        | None -> obs "pinfo err" | Some (st, n) -> obs "pinfo ok %s %s" (dec_of_z st) (dec_of_z n))
    | _ -> failwith "pinfo");
  let plist name = register name (fun tk -> match tk with
    | [_; s] -> (match parse_archive_info_list (str_of_hex s) with
        | None -> obs "%s err" name | Some l -> obs "%s ok %s" name (show_ainfos l))
    | _ -> failwith name) in
  plist "plist"; plist "flaglist";
  register "slist" (fun tk -> match tk with
    | _ :: rest -> let (l, _) = parse_layout rest in obs "slist %s" (hex_of_str (archive_list_string l))
    | _ -> failwith "slist");
  register "pmeth" (fun tk -> match tk with
    | [_; s] -> (match method_of_string (str_of_hex s) with None -> obs "pmeth err" | Some m -> obs "pmeth ok %s" (dec_of_z m))
    | _ -> failwith "pmeth");
  register "smeth" (fun tk -> match tk with
    | [_; m] -> obs "smeth %s" (hex_of_str (method_string (zi m)))
    | _ -> failwith "smeth");
  register "flagmeth" (fun tk -> match tk with
    | [_; s] -> (match flag_method (str_of_hex s) with None -> obs "flagmeth err" | Some m -> obs "flagmeth ok %s" (dec_of_z m))
    | _ -> failwith "flagmeth");
  register "flagts" (fun tk -> match tk with
    | [_; s] -> (match parse_timestamp (str_of_hex s) with None -> obs "flagts err" | Some t -> obs "flagts ok %s" (dec_of_z t))
    | _ -> failwith "flagts");
  register "cliflagxff" (fun tk -> match tk with
    | [_; _s; pf] ->
      let v = String.sub pf 3 (String.length pf - 3) in
      if v = "err" then obs "cliflagxff err"
      else (match fl_flag_xff (z_of_hex v) with
            | None -> obs "cliflagxff err"
            | Some b -> obs "cliflagxff ok %08Lx" (u64_of_z b))
    | _ -> failwith "cliflagxff")

(* net/url (C12): QueryEscape / QueryUnescape / ParseQuery *)
let () =
  register "qesc" (fun tk -> match tk with
    | [_; s] -> obs "qesc %s" (hex_of_str (q_escape (str_of_hex s)))
    | _ -> failwith "qesc");
  register "qunesc" (fun tk -> match tk with
    | [_; s] -> (match q_unescape (str_of_hex s) with None -> obs "qunesc err" | Some v -> obs "qunesc ok %s" (hex_of_str v))
    | _ -> failwith "qunesc");
  register "qparse" (fun tk -> match tk with
    | [_; s] -> (match parse_query (str_of_hex s) with
        | None -> obs "qparse err"
        | Some kvs ->
          (* Values is a map: group by key, keys sorted bytewise, values in order of appearance *)
          let key_str k = String.concat "" (List.map (fun c -> String.make 1 (Char.chr (int_of_z c land 255))) k) in
          let keys = List.sort_uniq compare (List.map (fun (k, _) -> key_str k) kvs) in
          let parts = List.map (fun ks ->
              let vs = List.filter_map (fun (k, v) -> if key_str k = ks then Some (hex_of_str v) else None) kvs in
              let khex = hex_of_str (List.map (fun ch -> z_of_int (Char.code ch)) (List.init (String.length ks) (String.get ks))) in
              khex ^ "=" ^ String.concat "," vs) keys in
          obs "qparse ok %s" (if parts = [] then "-" else String.concat ";" parts))
    | _ -> failwith "qparse")
