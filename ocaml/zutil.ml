(* Conversions between OCaml integers/strings and the extracted Z. *)
open Wtmodel

let rec pos_of_int64 (n : int64) : positive =
  if Int64.equal n 1L then XH
  else
    let rest = pos_of_int64 (Int64.shift_right_logical n 1) in
    if Int64.equal (Int64.logand n 1L) 0L then XO rest else XI rest
let z_of_u64 (n : int64) : z = if Int64.equal n 0L then Z0 else Zpos (pos_of_int64 n)
let z_of_int (n : int) : z =
  if n = 0 then Z0 else if n > 0 then Zpos (pos_of_int64 (Int64.of_int n))
  else Zneg (pos_of_int64 (Int64.of_int (-n)))
let rec u64_of_pos = function
  | XH -> 1L
  | XO p -> Int64.shift_left (u64_of_pos p) 1
  | XI p -> Int64.logor (Int64.shift_left (u64_of_pos p) 1) 1L
let u64_of_z = function Z0 -> 0L | Zpos p -> u64_of_pos p | Zneg p -> Int64.neg (u64_of_pos p)
let int_of_z z = Int64.to_int (u64_of_z z)
let z_of_hex s = z_of_u64 (Int64.of_string ("0x" ^ s))
let z_of_dec s = z_of_int (int_of_string s)

(* decimal rendering of an arbitrary Z (values may exceed 63 bits in the codec model) *)
let rec pos_bits = function XH -> [1] | XO p -> 0 :: pos_bits p | XI p -> 1 :: pos_bits p
let dec_of_pos p =
  (* little-endian bits -> decimal string via repeated doubling on a digit list *)
  let bits = List.rev (pos_bits p) in
  let double_add ds b =
    let rec go ds carry = match ds with
      | [] -> if carry = 0 then [] else [carry]
      | d :: r -> let v = d * 2 + carry in (v mod 10) :: go r (v / 10) in
    go ds b in
  let ds = List.fold_left double_add [] bits in
  let ds = if ds = [] then [0] else ds in
  String.concat "" (List.rev_map string_of_int ds)
let dec_of_z = function Z0 -> "0" | Zpos p -> dec_of_pos p | Zneg p -> "-" ^ dec_of_pos p

let is_nan (b : int64) =
  let e = Int64.logand (Int64.shift_right_logical b 52) 0x7FFL in
  let m = Int64.logand b 0xFFFFFFFFFFFFFL in
  Int64.equal e 0x7FFL && not (Int64.equal m 0L)
let show_val z = let b = u64_of_z z in if is_nan b then "nan" else Printf.sprintf "%016Lx" b
let show_bits z = Printf.sprintf "%016Lx" (u64_of_z z)
